package main

import (
	"bytes"
	"encoding/json"
	"fmt"
	"math/rand"
	"mime/multipart"
	"net/http"
	"net/http/httptest"
	"sort"
	"strings"

	"github.com/buildbuildio/pebbles/requests"
	"github.com/vektah/gqlparser/v2"

	"verif/harness/coqprint"
	"verif/harness/gen"
	"verif/harness/hx"
)

func init() { drivers["C07"] = driveC07 }

type c07Case struct {
	Multipart   bool              `json:"multipart"`
	ContentType string            `json:"content_type"`
	Body        string            `json:"body"` // JSON body or the operations form value
	Map         *string           `json:"map,omitempty"`
	Files       map[string]string `json:"files,omitempty"` // part name -> content
	Schema      string            `json:"schema"`          // which rig
	Origin      string            `json:"origin"`
}

type parseObs struct {
	Class string // "422" | "200" | "panic"
	Batch bool
	Reqs  []*requests.Request
	Err   string
}

func buildHTTPRequest(c c07Case) *http.Request {
	if !c.Multipart {
		r := httptest.NewRequest(http.MethodPost, "http://gw/graphql", strings.NewReader(c.Body))
		if c.ContentType != "" {
			r.Header.Set("Content-Type", c.ContentType)
		}
		return r
	}
	var buf bytes.Buffer
	w := multipart.NewWriter(&buf)
	w.WriteField("operations", c.Body)
	if c.Map != nil {
		w.WriteField("map", *c.Map)
	}
	var keys []string
	for k := range c.Files {
		keys = append(keys, k)
	}
	sort.Strings(keys)
	for _, k := range keys {
		fw, _ := w.CreateFormFile(k, "file-"+k)
		fw.Write([]byte(c.Files[k]))
	}
	w.Close()
	r := httptest.NewRequest(http.MethodPost, "http://gw/graphql", &buf)
	r.Header.Set("Content-Type", w.FormDataContentType())
	return r
}

func runParse(c c07Case) (o parseObs) {
	defer func() {
		if p := recover(); p != nil {
			o = parseObs{Class: "panic", Err: fmt.Sprint(p)}
		}
	}()
	res, err := requests.Parse(buildHTTPRequest(c))
	if err != nil {
		return parseObs{Class: "422", Err: err.Error()}
	}
	return parseObs{Class: "200", Batch: res.IsBatchMode, Reqs: res.Requests}
}

func bytesToCoq(b string) string {
	xs := make([]int, len(b))
	for i := 0; i < len(b); i++ {
		xs[i] = int(b[i])
	}
	return hx.CoqNatList(xs) + "%N"
}

func c07Coq(c c07Case, o parseObs) (string, bool) {
	jtree, ok := coqprint.ParseOrdered([]byte(c.Body))
	j := "None"
	if ok {
		j = "(Some " + coqprint.OrderedToCoq(jtree) + ")"
	}
	mp := "None"
	var mapKeys []string
	if c.Multipart && c.Map != nil {
		var m map[string][]string
		if err := json.Unmarshal([]byte(*c.Map), &m); err == nil {
			for k := range m {
				mapKeys = append(mapKeys, k)
			}
			sort.Strings(mapKeys)
			items := make([]string, len(mapKeys))
			for i, k := range mapKeys {
				ps := make([]string, len(m[k]))
				for jx, p := range m[k] {
					ps[jx] = coqprint.CoqStr(p)
				}
				items[i] = "(" + coqprint.CoqStr(k) + ", [" + strings.Join(ps, "; ") + "])"
			}
			mp = "(Some [" + strings.Join(items, "; ") + "])"
		}
	}
	var present []string
	for k := range c.Files {
		present = append(present, k)
	}
	sort.Strings(present)
	pres := make([]string, len(present))
	for i, k := range present {
		pres[i] = coqprint.CoqStr(k)
	}
	var obs string
	switch o.Class {
	case "422":
		obs = "O422"
	case "panic":
		obs = "OPanic"
	default:
		fileIndex := func(u *requests.Upload) int {
			key := strings.TrimPrefix(u.FileName, "file-")
			for i, k := range mapKeys {
				if k == key {
					return i
				}
			}
			return 9999
		}
		rs := make([]string, len(o.Reqs))
		for i, r := range o.Reqs {
			vars := "None"
			if r.Variables != nil {
				vars = "(Some " + strings.TrimSuffix(strings.TrimPrefix(coqprint.JSON(map[string]interface{}(r.Variables), fileIndex), "(JObj "), ")") + ")"
			}
			on := "None"
			if r.OperationName != nil {
				on = "(Some " + coqprint.CoqStr(*r.OperationName) + ")"
			}
			rs[i] = fmt.Sprintf("mkReq %s %s %s", coqprint.CoqStr(r.Query), vars, on)
		}
		obs = fmt.Sprintf("(O200 %s [%s])", hx.CoqBool(o.Batch), strings.Join(rs, "; "))
	}
	// the model is only about the JSON and multipart content types that reach parseRequest
	return fmt.Sprintf("mkCase %s %s %s %s [%s] %s", hx.CoqBool(c.Multipart), bytesToCoq(c.Body), j, mp, strings.Join(pres, "; "), obs), true
}

// ---- body generators ----
// operations whose variables the client may fill with values of the wrong JSON type (the gateway does not coerce
// variable values; whatever it does with them, it must answer)
var c07VarQueries = []string{
	"query($v: Boolean) { __type(name: \"Query\") { fields(includeDeprecated: $v) { name } } }",
	"query($v: Boolean) { __schema { types { enumValues(includeDeprecated: $v) { name } } } }",
	"query($v: String!) { __type(name: $v) { name kind } }",
	"query($v: Boolean!) { __typename @skip(if: $v) }",
}

var c07Queries = []string{"{ __typename }", "{ nosuchfield }", "{ q0_0 { id } ", "query A { __typename } query B { __typename }", "{ __schema { queryType { name } } }", "", " ", "# only a comment"}

func genJSONBody(rng *rand.Rand, validQueries []string) (string, string) {
	q := func() string {
		if len(validQueries) > 0 && rng.Intn(3) != 0 {
			return validQueries[rng.Intn(len(validQueries))]
		}
		return c07Queries[rng.Intn(len(c07Queries))]
	}
	member := func(name string) string {
		switch rng.Intn(8) {
		case 0:
			return strings.ToUpper(name)
		case 1:
			return strings.Title(name)
		}
		return name
	}
	val := func() string {
		return []string{"null", "1", "\"s\"", "true", "[]", "{}", "[null]", "{\"a\":null}", "1.5e3", "[[1]]"}[rng.Intn(10)]
	}
	obj := func() string {
		var ms []string
		if rng.Intn(8) == 0 {
			qv, _ := json.Marshal(c07VarQueries[rng.Intn(len(c07VarQueries))])
			return fmt.Sprintf("{\"query\": %s, \"variables\": {\"v\": %s}}", qv, val())
		}
		qs, _ := json.Marshal(q())
		switch rng.Intn(10) {
		case 0:
			ms = append(ms, fmt.Sprintf("%q: %s", member("query"), val()))
		case 1:
			// no query member
		default:
			ms = append(ms, fmt.Sprintf("%q: %s", member("query"), qs))
		}
		switch rng.Intn(6) {
		case 0:
			ms = append(ms, fmt.Sprintf("%q: %s", member("variables"), val()))
		case 1:
			ms = append(ms, fmt.Sprintf("%q: {\"a\": 1, \"f\": null, \"l\": [null, null], \"o\": {\"inner\": null}}", member("variables")))
		}
		switch rng.Intn(6) {
		case 0:
			ms = append(ms, fmt.Sprintf("%q: %s", member("operationName"), val()))
		case 1:
			ms = append(ms, fmt.Sprintf("%q: \"A\"", member("operationName")))
		}
		if rng.Intn(8) == 0 {
			ms = append(ms, fmt.Sprintf("\"extra\": %s", val()))
		}
		rng.Shuffle(len(ms), func(i, j int) { ms[i], ms[j] = ms[j], ms[i] })
		return "{" + strings.Join(ms, ", ") + "}"
	}
	var body, origin string
	switch r := rng.Intn(12); {
	case r < 4:
		body, origin = obj(), "single"
	case r < 8:
		n := rng.Intn(4)
		var es []string
		for i := 0; i < n; i++ {
			if rng.Intn(6) == 0 {
				es = append(es, val())
			} else {
				es = append(es, obj())
			}
		}
		body, origin = "["+strings.Join(es, ", ")+"]", "batch"
	case r < 9:
		body, origin = val(), "scalar"
	case r < 10:
		body, origin = []string{"\"[\"", "\"{\"", "  \"x[\" ", "[", "{", "]", "[{]", "{\"query\": \"{ __typename }\"", "", "   ", "nul", "[null", "{}{}"}[rng.Intn(13)], "malformed"
	default:
		b := []byte(obj())
		for k := 0; k < 1+rng.Intn(3) && len(b) > 0; k++ {
			i := rng.Intn(len(b))
			switch rng.Intn(3) {
			case 0:
				b[i] = byte(32 + rng.Intn(95))
			case 1:
				b = append(b[:i], b[i+1:]...)
			default:
				b = append(b[:i], append([]byte{"[{]}\",:n"[rng.Intn(8)]}, b[i:]...)...)
			}
		}
		body, origin = string(b), "byte_edit"
	}
	if rng.Intn(5) == 0 {
		body = []string{" ", "\n", "\t  "}[rng.Intn(3)] + body
	}
	return body, origin
}

func genMultipart(rng *rand.Rand, validQueries []string) c07Case {
	q := "{ __typename }"
	if len(validQueries) > 0 {
		q = validQueries[rng.Intn(len(validQueries))]
	}
	qs, _ := json.Marshal(q)
	vars := `{"f": null, "g": null, "l": [null, null, null], "o": {"inner": null, "deep": {"x": null, "xs": [null]}}, "s": "taken", "n": 5}`
	one := fmt.Sprintf(`{"query": %s, "variables": %s}`, qs, vars)
	batch := rng.Intn(3) == 0
	nreq := 1
	body := one
	if batch {
		nreq = 1 + rng.Intn(3)
		var es []string
		for i := 0; i < nreq; i++ {
			if rng.Intn(5) == 0 {
				es = append(es, fmt.Sprintf(`{"query": %s}`, qs)) // no variables at all
			} else {
				es = append(es, one)
			}
		}
		body = "[" + strings.Join(es, ",") + "]"
	}
	goodPaths := []string{"variables.f", "variables.g", "variables.l.0", "variables.l.2", "variables.o.inner", "variables.o.deep.x", "variables.o.deep.xs.0"}
	badPaths := []string{"variables.l.3", "variables.l.-1", "variables.l.x", "variables.l", "variables.s", "variables.n", "variables.nosuch", "variables", "", "variabl.f", "variables.o", "variables.o.deep.xs.7",
		"variables.f.more", "variables.l.0.more", "5.variables.f", "-1.variables.f", "0", "1", "x.variables.f", "variables.l.+1", "variables.l.00", "variables..f", "variables.o.inner.", "."}
	path := func() string {
		var p string
		if rng.Intn(3) == 0 {
			p = badPaths[rng.Intn(len(badPaths))]
		} else {
			p = goodPaths[rng.Intn(len(goodPaths))]
		}
		if batch && rng.Intn(6) != 0 && !strings.Contains(p, "variables.f.") {
			if _, bad := map[string]bool{"5.variables.f": true, "-1.variables.f": true, "0": true, "1": true, "x.variables.f": true}[p]; !bad {
				p = fmt.Sprintf("%d.%s", rng.Intn(nreq+1), p)
			}
		}
		return p
	}
	c := c07Case{Multipart: true, ContentType: "multipart/form-data", Body: body, Files: map[string]string{}, Origin: "multipart"}
	nfiles := rng.Intn(4)
	m := map[string][]string{}
	for i := 0; i < nfiles; i++ {
		key := fmt.Sprint(i)
		np := 1 + rng.Intn(2)
		for k := 0; k < np; k++ {
			m[key] = append(m[key], path())
		}
		if rng.Intn(8) != 0 {
			c.Files[key] = fmt.Sprintf("content-%d", i)
		}
	}
	switch rng.Intn(12) {
	case 0:
		// no map at all
	case 1:
		s := []string{"null", "[]", "{\"0\": \"variables.f\"}", "{\"0\": [1]}", "not json", "{}"}[rng.Intn(6)]
		c.Map = &s
	default:
		b, _ := json.Marshal(m)
		s := string(b)
		c.Map = &s
	}
	if rng.Intn(10) == 0 {
		c.Body, _ = genJSONBody(rng, validQueries)
	}
	return c
}

func driveC07(seed int64, tier, out, replay string) {
	rng := hx.NewRand(seed)
	obs := hx.NewObs("C07", seed, tier)
	n := 700
	if tier == "thorough" {
		n = 8000
	}
	// two rigs: an ordinary world, and a corner-case schema (interface without implementers, unions, root __typename)
	w := gen.NewWorld(hx.NewRand(seed+7), gen.DefaultWorldOptions())
	rig, err := NewRig(w, RigConfig{})
	if err != nil {
		panic(err)
	}
	corner := &gen.World{Store: w.Store, Services: []*gen.Service{{URL: "http://corner", Defs: []*gen.Def{
		{Kind: "INTERFACE", Name: "Lonely", Fields: []gen.Field{{Name: "x", Type: "Int"}}},
		{Kind: "INTERFACE", Name: "Node", Fields: []gen.Field{{Name: "id", Type: "ID!"}}},
		{Kind: "OBJECT", Name: "Thing", Ifaces: []string{"Node"}, Fields: []gen.Field{{Name: "id", Type: "ID!"}, {Name: "lonely", Type: "Lonely"}, {Name: "lonelies", Type: "[Lonely]"}}},
		{Kind: "OBJECT", Name: "Query", Fields: []gen.Field{{Name: "lonely", Type: "Lonely"}, {Name: "thing", Type: "Thing"}, {Name: "node", Args: []gen.Arg{{Name: "id", Type: "ID!"}}, Type: "Node"}}},
	}}}}
	cornerRig, err := NewRig(corner, RigConfig{})
	if err != nil {
		panic(err)
	}
	var validQs []string
	for i := 0; i < 12; i++ {
		op := gen.Operation(rng, rig.Merged, opOptionsFor("inD01", w))
		validQs = append(validQs, op.Query)
	}
	cornerQs := []string{"{ lonely { x } }", "{ lonely { __typename } }", "{ thing { lonely { x } lonelies { x __typename } } }", "{ __typename }", "{ __typename lonely { x } }",
		"{ node(id: \"a\") { id } }", "{ node(id: \"a\") { ... on Thing { lonely { x } } } }", "{ __schema { types { name } } lonely { x } }", "query { thing { id ... on Thing { lonely { x } } } }"}
	var cases []c07Case
	if replay != "" {
		cases = loadReplayCases[c07Case](replay)
	} else {
		for i := 0; i < n; i++ {
			var c c07Case
			switch r := rng.Intn(10); {
			case r < 5:
				body, origin := genJSONBody(rng, validQs)
				c = c07Case{Body: body, ContentType: []string{"application/json", "application/json; charset=utf-8", "text/plain", ""}[rng.Intn(4)], Origin: origin}
			case r < 8:
				c = genMultipart(rng, validQs)
			case r < 9:
				body, _ := genJSONBody(rng, validQs)
				c = c07Case{Body: body, ContentType: []string{"application/xml", "application/graphql", "multipart/mixed", "multipart/form-data", ";", "text/plain;"}[rng.Intn(6)], Origin: "content_type"}
			default:
				qs, _ := json.Marshal(cornerQs[rng.Intn(len(cornerQs))])
				c = c07Case{Body: fmt.Sprintf(`{"query": %s}`, qs), ContentType: "application/json", Schema: "corner", Origin: "corner_schema"}
			}
			cases = append(cases, c)
		}
	}
	var coq []string
	distinct := map[string]bool{}
	for i, c := range cases {
		hx.Current(out, i, c)
		r := rig
		if c.Schema == "corner" {
			r = cornerRig
		}
		po := runParse(c)
		obs.Count("parse_" + po.Class)
		obs.Count("origin_" + c.Origin)
		// the real handler
		req := buildHTTPRequest(c)
		rec := httptest.NewRecorder()
		hpanic := ""
		func() {
			defer func() {
				if p := recover(); p != nil {
					hpanic = fmt.Sprint(p)
				}
			}()
			r.GW.Handler(rec, req)
		}()
		what := ""
		switch {
		case po.Class == "panic":
			what = "requests.Parse panicked: " + po.Err
		case hpanic != "":
			what = "the handler panicked: " + hpanic
		default:
			var top interface{}
			if err := json.Unmarshal(rec.Body.Bytes(), &top); err != nil {
				what = "response body is not JSON: " + shortStr(rec.Body.String(), 120)
			} else if po.Class == "422" && rec.Code != 422 {
				what = fmt.Sprintf("undecodable request answered with status %d", rec.Code)
			} else if po.Class == "200" && rec.Code != 200 {
				what = fmt.Sprintf("decodable request answered with status %d", rec.Code)
			} else {
				var results []interface{}
				if arr, ok := top.([]interface{}); ok && po.Class == "200" && po.Batch {
					results = arr
					if len(arr) != len(po.Reqs) {
						what = fmt.Sprintf("batch of %d answered with %d results", len(po.Reqs), len(arr))
					}
				} else {
					results = []interface{}{top}
				}
				for k, res := range results {
					m, ok := res.(map[string]interface{})
					if !ok {
						what = fmt.Sprintf("result %d is not an object: %v", k, res)
						break
					}
					_, hasData := m["data"]
					errs, hasErr := m["errors"]
					if !hasData && !hasErr {
						what = "result carries neither data nor errors"
						break
					}
					if po.Class == "422" {
						if m["data"] != nil || !hasErr {
							what = "422 answer without errors / with data"
						}
						continue
					}
					if k < len(po.Reqs) {
						if _, qerr := gqlparser.LoadQuery(r.Merged, po.Reqs[k].Query); qerr != nil {
							el, _ := errs.([]interface{})
							if m["data"] != nil || len(el) == 0 {
								what = fmt.Sprintf("invalid operation %q answered with data=%v errors=%v", shortStr(po.Reqs[k].Query, 80), m["data"], errs)
								break
							}
						}
					}
				}
			}
		}
		if what != "" {
			obs.Fail(i, what, c)
		}
		obs.CaseInputs = append(obs.CaseInputs, c)
		isModelled := c.ContentType == "application/json" || c.ContentType == "application/json; charset=utf-8" || c.ContentType == "text/plain" || c.ContentType == "" || (c.Multipart && c.ContentType == "multipart/form-data")
		if isModelled {
			line, _ := c07Coq(c, po)
			coq = append(coq, line)
		} else {
			// unknown content types never reach the modelled code; the oracle above still applies
			coq = append(coq, "mkCase false []%N None None [] O422")
		}
		distinct[c.Body+fmt.Sprint(c.Map)] = true
		if i%83 == 11 && len(obs.Samples) < 6 {
			obs.Samples = append(obs.Samples, map[string]interface{}{"case": c, "parse": po.Class, "status": rec.Code, "response": shortStr(rec.Body.String(), 160)})
		}
	}
	obs.Evaluations = len(cases)
	obs.DistinctNontrivial = len(distinct)
	obs.Rule = "structured fuzz of request bodies: valid single/batched requests with member-name case variants, null/wrong-typed/extra members, arrays with non-objects, scalars, malformed and byte-edited JSON, leading whitespace; multipart layouts (batch or single operations, 0-3 files, good and bad map paths incl. out-of-range/negative/non-numeric/too-short, missing parts, broken maps); unknown content types; corner-case schema (interface without implementers, root __typename); every case goes through requests.Parse AND Gateway.Handler; distinct by (body, map)"
	hx.WriteCases(out, "From Pebbles Require Import Base.Json Net.Decode Corr.C07.\nFrom Coq Require Import NArith List String. Import ListNotations.\nOpen Scope string_scope.\n", "c7case", coq, "mismatches")
	obs.Write(out)
}
