package main

import (
	"bytes"
	"encoding/json"
	"fmt"
	"io"
	"net/http"
	"net/http/httptest"
	"strings"
	"sync"
	"time"

	"github.com/buildbuildio/pebbles"
	"github.com/vektah/gqlparser/v2"
	"github.com/vektah/gqlparser/v2/ast"
)

// lostAnswer: the gateway talks to one service over real sockets (the default queryer: MultiOpQueryer over
// net/http, pooled connections). After ordinary traffic has put a connection into the pool, the service reads —
// and executes — a mutation and then loses the answer in one of several ways. C06: the mutation root field has
// reached the service exactly once, whatever happens to the answer.
type lostAnswerSvc struct {
	mu        sync.Mutex
	conns     map[string]int
	reused    bool
	armed     string // "" | drop | status | cut
	fired     bool
	mutations int
}

func (d *lostAnswerSvc) ServeHTTP(w http.ResponseWriter, r *http.Request) {
	body, _ := io.ReadAll(r.Body)
	var batch []struct {
		Query string `json:"query"`
	}
	if err := json.Unmarshal(body, &batch); err != nil {
		http.Error(w, err.Error(), http.StatusBadRequest)
		return
	}
	d.mu.Lock()
	d.conns[r.RemoteAddr]++
	isReused := d.conns[r.RemoteAddr] > 1
	d.reused = d.reused || isReused
	how := ""
	var resps []map[string]interface{}
	for _, req := range batch {
		if strings.HasPrefix(strings.TrimSpace(req.Query), "mutation") {
			d.mutations++
			if d.armed != "" && isReused {
				how, d.armed, d.fired = d.armed, "", true
			}
			resps = append(resps, map[string]interface{}{"data": map[string]interface{}{"createUser": map[string]interface{}{"id": "user_1", "name": "neo"}}})
			continue
		}
		resps = append(resps, map[string]interface{}{"data": map[string]interface{}{"me": map[string]interface{}{"id": "user_0", "name": "root"}}})
	}
	d.mu.Unlock()
	switch how {
	case "drop": // the connection goes away before a single byte of the answer
		if conn, _, err := w.(http.Hijacker).Hijack(); err == nil {
			conn.Close()
		}
		return
	case "status":
		http.Error(w, "bad gateway", http.StatusBadGateway)
		return
	case "cut": // half an answer, then the connection goes away
		if conn, buf, err := w.(http.Hijacker).Hijack(); err == nil {
			buf.WriteString("HTTP/1.1 200 OK\r\nContent-Type: application/json\r\nContent-Length: 400\r\n\r\n[{\"data\":{\"createUser\"")
			buf.Flush()
			conn.Close()
		}
		return
	}
	w.Header().Set("Content-Type", "application/json")
	json.NewEncoder(w).Encode(resps)
}

func runLostAnswer(how string) string {
	ds := &lostAnswerSvc{conns: map[string]int{}}
	srv := httptest.NewServer(ds)
	defer srv.Close()
	schema, err := gqlparser.LoadSchema(&ast.Source{Name: "users", Input: `
		interface Node { id: ID! }
		type User implements Node { id: ID! name: String! }
		type Query { node(id: ID!): Node me: User }
		type Mutation { createUser(name: String!): User }`})
	if err != nil {
		return "skip: " + err.Error()
	}
	gw, gerr := pebbles.NewGateway([]string{srv.URL}, pebbles.WithRemoteSchemaIntrospector(&mockIntrospector{res: []*ast.Schema{schema}}))
	if gerr != nil {
		return "skip: " + gerr.Error()
	}
	post := func(payload string) map[string]interface{} {
		r := httptest.NewRequest("POST", "/", bytes.NewBufferString(payload))
		rr := httptest.NewRecorder()
		gw.Handler(rr, r)
		var res map[string]interface{}
		json.Unmarshal(rr.Body.Bytes(), &res)
		return res
	}
	for i := 0; i < 25; i++ {
		post(`{"query": "{ me { id name } }"}`)
		time.Sleep(15 * time.Millisecond)
		ds.mu.Lock()
		reused := ds.reused
		ds.mu.Unlock()
		if reused {
			break
		}
	}
	ds.mu.Lock()
	if !ds.reused {
		ds.mu.Unlock()
		return "skip: the connection to the service was never reused"
	}
	ds.armed = how
	ds.mu.Unlock()
	res := post(`{"query": "mutation { createUser(name: \"neo\") { id name } }"}`)
	time.Sleep(30 * time.Millisecond)
	ds.mu.Lock()
	defer ds.mu.Unlock()
	if !ds.fired {
		return "skip: the mutation did not arrive on a reused connection"
	}
	if ds.mutations != 1 {
		return fmt.Sprintf("one client request with one mutation root field, answer lost (%s): the owning service received and executed the mutation %d times", how, ds.mutations)
	}
	if el, _ := res["errors"].([]interface{}); len(el) == 0 {
		return fmt.Sprintf("the answer of the mutation was lost (%s) and the client was not told: %v", how, res)
	}
	return ""
}
