package main

import (
	"bytes"
	"fmt"
	"strings"

	"github.com/vektah/gqlparser/v2"
	"github.com/vektah/gqlparser/v2/ast"
	"github.com/vektah/gqlparser/v2/formatter"
	"github.com/vektah/gqlparser/v2/parser"

	"verif/harness/gen"
	"verif/harness/hx"
)

func init() { drivers["shrink"] = driveShrink }

func printDoc(doc *ast.QueryDocument) string {
	var buf bytes.Buffer
	formatter.NewFormatter(&buf).FormatQueryDocument(doc)
	return strings.Join(strings.Fields(buf.String()), " ")
}

// all selection sets of the document, as pointers that can be edited in place
func selectionSets(doc *ast.QueryDocument) []*ast.SelectionSet {
	var out []*ast.SelectionSet
	var walk func(ss *ast.SelectionSet)
	walk = func(ss *ast.SelectionSet) {
		out = append(out, ss)
		for _, s := range *ss {
			switch v := s.(type) {
			case *ast.Field:
				if len(v.SelectionSet) > 0 {
					walk(&v.SelectionSet)
				}
			case *ast.InlineFragment:
				walk(&v.SelectionSet)
			}
		}
	}
	for _, o := range doc.Operations {
		walk(&o.SelectionSet)
	}
	for _, f := range doc.Fragments {
		walk(&f.SelectionSet)
	}
	return out
}

// shrinkOp removes selections, directives, aliases and unused fragments while `fails` keeps holding
func shrinkOp(schema *ast.Schema, op gen.GenOp, fails func(gen.GenOp) bool) gen.GenOp {
	cur := op
	try := func(edit func(doc *ast.QueryDocument) bool) bool {
		doc, err := parser.ParseQuery(&ast.Source{Input: cur.Query})
		if err != nil {
			return false
		}
		if !edit(doc) {
			return false
		}
		// drop fragments that are no longer used
		txt := printDoc(doc)
		var kept ast.FragmentDefinitionList
		for _, f := range doc.Fragments {
			if strings.Contains(strings.Replace(txt, "fragment "+f.Name+" ", "", 1), "..."+f.Name) {
				kept = append(kept, f)
			}
		}
		doc.Fragments = kept
		cand := cur
		cand.Query = printDoc(doc)
		if cand.Query == cur.Query {
			return false
		}
		if _, errs := gqlparser.LoadQuery(schema, cand.Query); errs != nil {
			return false
		}
		if fails(cand) {
			cur = cand
			return true
		}
		return false
	}
	for progress := true; progress; {
		progress = false
		// remove one selection
		for si := 0; ; si++ {
			doc, err := parser.ParseQuery(&ast.Source{Input: cur.Query})
			if err != nil {
				break
			}
			sets := selectionSets(doc)
			if si >= len(sets) {
				break
			}
			for k := len(*sets[si]) - 1; k >= 0; k-- {
				si, k := si, k
				if try(func(d *ast.QueryDocument) bool {
					ss := selectionSets(d)
					if si >= len(ss) || k >= len(*ss[si]) || len(*ss[si]) < 2 {
						return false
					}
					*ss[si] = append(append(ast.SelectionSet{}, (*ss[si])[:k]...), (*ss[si])[k+1:]...)
					return true
				}) {
					progress = true
				}
			}
		}
		// strip directives and aliases, one field at a time
		for pass := 0; pass < 2; pass++ {
			for idx := 0; idx < 400; idx++ {
				idx, pass := idx, pass
				if try(func(d *ast.QueryDocument) bool {
					n := 0
					changed := false
					for _, ss := range selectionSets(d) {
						for _, s := range *ss {
							if f, ok := s.(*ast.Field); ok {
								if n == idx {
									if pass == 0 && len(f.Directives) > 0 {
										f.Directives = nil
										changed = true
									}
									if pass == 1 && f.Alias != f.Name && f.Alias != "" {
										f.Alias = f.Name
										changed = true
									}
								}
								n++
							}
						}
					}
					return changed
				}) {
					progress = true
				}
			}
		}
	}
	return cur
}

// shrink: minimise the operations of the failing cases of a C01 replay file
func driveShrink(seed int64, tier, out, replay string) {
	cases := loadReplayCases[fedCase](replay)
	seen := map[string]bool{}
	for _, c := range cases {
		if c.Op == nil {
			continue
		}
		r, err := NewRig(worldFor(c.WorldSeed, c.Domain), c.Cfg)
		if err != nil {
			fmt.Println("rig:", err)
			continue
		}
		fails := func(op gen.GenOp) bool {
			what, _ := compareFed(r, op)
			return what != "" && !strings.HasPrefix(what, "skip:")
		}
		if !fails(*c.Op) {
			fmt.Println("does not fail any more:", shortStr(c.Op.Query, 120))
			continue
		}
		min := shrinkOp(r.Merged, *c.Op, fails)
		what, _ := compareFed(r, min)
		key := min.Query
		if seen[key] {
			continue
		}
		seen[key] = true
		fmt.Printf("MIN %s\n    vars %v cfg %s\n    %s\n    sdl: %s\n", min.Query, min.Variables, c.Cfg, shortStr(what, 500), strings.Join(r.SDLs, " ### "))
	}
	_ = hx.NewRand
}
