package main

import (
	"fmt"
	"math/rand"
	"sort"
	"strings"
	"time"

	"github.com/buildbuildio/pebbles/requests"
	"github.com/vektah/gqlparser/v2/ast"

	"verif/harness/fake"
	"verif/harness/gen"
	"verif/harness/hx"
)

func init() { drivers["C17"] = driveC17 }

type c17Sub struct {
	Conn  int       `json:"connection"`
	ID    string    `json:"id"`
	Op    gen.GenOp `json:"operation"`
	Field string    `json:"subscription_field"`
}

type c17Emit struct {
	Sub   int    `json:"sub"`
	Event int    `json:"event"`
	Kind  string `json:"kind"` // data | data_with_errors | error_msg
}

type c17Step struct {
	Kind  string    `json:"kind"` // start | emit | burst | stop | complete
	Sub   int       `json:"sub"`
	Emits []c17Emit `json:"emits,omitempty"`
}

type c17Case struct {
	WorldSeed int64     `json:"world_seed"`
	Cfg       RigConfig `json:"config"`
	Conns     int       `json:"connections"`
	Subs      []c17Sub  `json:"subscriptions"`
	Steps     []c17Step `json:"steps"`
}

func subWorld(seed int64) *gen.World {
	opt := gen.DefaultWorldOptions()
	opt.Subscriptions = true
	return gen.NewWorld(hx.NewRand(seed), opt)
}

func rootFieldOf(schema *ast.Schema, query string) string {
	i := strings.Index(query, "{")
	rest := strings.TrimSpace(query[i+1:])
	// "alias: name(args) {" | "name {" | "name(args)"
	end := strings.IndexAny(rest, " ({")
	tok := rest
	if end >= 0 {
		tok = rest[:end]
	}
	if strings.HasSuffix(tok, ":") {
		rest = strings.TrimSpace(rest[end:])
		end = strings.IndexAny(rest, " ({")
		tok = rest
		if end >= 0 {
			tok = rest[:end]
		}
	}
	return tok
}

// a copy of the operation with other values for its variables
func otherVariables(rng *rand.Rand, op gen.GenOp) gen.GenOp {
	if len(op.Variables) == 0 {
		return op
	}
	cp := op
	cp.Variables = map[string]interface{}{}
	for k, v := range op.Variables {
		switch x := v.(type) {
		case int:
			cp.Variables[k] = x + 1 + rng.Intn(3)
		case string:
			cp.Variables[k] = x + "'"
		case bool:
			cp.Variables[k] = !x
		default:
			cp.Variables[k] = v
		}
	}
	return cp
}

func genC17Case(rng *rand.Rand, cfg RigConfig) (c17Case, bool) {
	c := c17Case{WorldSeed: rng.Int63(), Cfg: cfg, Conns: 1 + rng.Intn(2)}
	w := subWorld(c.WorldSeed)
	r, err := NewRig(w, RigConfig{})
	if err != nil || r.Merged.Subscription == nil {
		return c, false
	}
	oo := opOptionsFor("inD01", w)
	oo.ForceSubscription = true
	oo.Mutation = false
	nsubs := 1 + rng.Intn(4)
	for i := 0; i < nsubs; i++ {
		var op gen.GenOp
		if i > 0 && rng.Intn(2) == 0 {
			op = otherVariables(rng, c.Subs[rng.Intn(i)].Op)
		} else {
			op = gen.Operation(rng, r.Merged, oo)
		}
		c.Subs = append(c.Subs, c17Sub{Conn: rng.Intn(c.Conns), ID: fmt.Sprintf("sub-%d", i), Op: op, Field: rootFieldOf(r.Merged, op.Query)})
	}
	// schedule: every subscription is started; events singly and in bursts; some are stopped or completed, the rest
	// end with the connection
	started := []int{}
	alive := map[int]bool{}
	next := map[int]int{}
	pending := rng.Perm(nsubs)
	emit := func(s int) c17Emit {
		kind := "data"
		switch rng.Intn(10) {
		case 0:
			kind = "data_with_errors"
		case 1:
			kind = "error_msg"
		}
		e := c17Emit{Sub: s, Event: next[s] % 6, Kind: kind}
		next[s]++
		return e
	}
	aliveList := func() []int {
		var l []int
		for _, s := range started {
			if alive[s] {
				l = append(l, s)
			}
		}
		return l
	}
	for steps := 0; steps < 14; steps++ {
		al := aliveList()
		switch {
		case len(pending) > 0 && (len(al) == 0 || rng.Intn(3) == 0):
			s := pending[0]
			pending = pending[1:]
			c.Steps = append(c.Steps, c17Step{Kind: "start", Sub: s})
			started = append(started, s)
			alive[s] = true
		case len(al) == 0:
			steps = 99
		case rng.Intn(8) == 0:
			s := al[rng.Intn(len(al))]
			c.Steps = append(c.Steps, c17Step{Kind: []string{"stop", "complete"}[rng.Intn(2)], Sub: s})
			alive[s] = false
		case rng.Intn(3) == 0 && len(al) > 1:
			var es []c17Emit
			for i := 0; i < 2+rng.Intn(6); i++ {
				es = append(es, emit(al[rng.Intn(len(al))]))
			}
			c.Steps = append(c.Steps, c17Step{Kind: "burst", Emits: es})
		default:
			s := al[rng.Intn(len(al))]
			c.Steps = append(c.Steps, c17Step{Kind: "emit", Sub: s, Emits: []c17Emit{emit(s)}})
		}
	}
	if rng.Intn(4) == 0 && len(aliveList()) > 1 {
		// a storm: many events on all live subscriptions at once (their Listen goroutines share the connection)
		al := aliveList()
		var es []c17Emit
		for i := 0; i < 60+rng.Intn(60); i++ {
			e := emit(al[rng.Intn(len(al))])
			e.Kind = "data"
			es = append(es, e)
		}
		c.Steps = append(c.Steps, c17Step{Kind: "burst", Emits: es})
	}
	return c, true
}

type c17Frame struct {
	Conn    int
	ID      string
	Type    string
	Payload map[string]interface{}
	Bad     string
}

type c17Expect struct {
	data string // canonical expected payload data ("" for error_msg)
	errs bool
}

// runC17 executes one history against a fresh rig; returns "" or what went wrong, and the Coq cases (one per
// connection: handler messages, spawn/close actions, entry traces with the number of frames the client got)
func runC17(c c17Case, obs *hx.Obs, coq *[]string) string {
	tr := newSubTracer()
	defer tr.stop()
	w := subWorld(c.WorldSeed)
	cfg := c.Cfg
	cfg.Subs = true
	r, err := NewRig(w, cfg)
	if err != nil {
		return "skip: " + err.Error()
	}
	defer r.Close()
	clients := make([]*fake.WSClient, c.Conns)
	for i := range clients {
		cl, err := fake.DialGateway(r.GWSrv.URL)
		if err != nil {
			return "cannot connect to the gateway: " + err.Error()
		}
		clients[i] = cl
		cl.Send(map[string]interface{}{"type": requests.SubConnectionInit})
		f, ok := cl.Next(3 * time.Second)
		if !ok || f.Msg["type"] != requests.SubConnectionAck {
			return fmt.Sprintf("no connection_ack: %+v", f)
		}
	}
	ups := make([]*fake.UpConn, len(c.Subs))
	expected := make([][]c17Expect, len(c.Subs))
	ended := make([]bool, len(c.Subs))
	got := make([][]c17Frame, len(c.Subs))
	idOf := map[string]int{}
	for i, s := range c.Subs {
		idOf[fmt.Sprintf("%d/%s", s.Conn, s.ID)] = i
	}
	msgs := make([][]string, c.Conns)
	acts := make([][]string, c.Conns)
	entryNo := make([]int, len(c.Subs))
	nextEntry := make([]int, c.Conns)
	for i := range msgs {
		msgs[i] = []string{"MInit"}
	}
	var stray []string
	take := func(conn int, f fake.WSFrame) {
		if f.BadJSON {
			stray = append(stray, fmt.Sprintf("connection %d: frame is not one JSON message: %q", conn, shortStr(f.Raw, 200)))
			return
		}
		if f.Close {
			stray = append(stray, fmt.Sprintf("connection %d closed by the gateway (%s)", conn, f.Err))
			return
		}
		typ, _ := f.Msg["type"].(string)
		id, _ := f.Msg["id"].(string)
		i, ok := idOf[fmt.Sprintf("%d/%s", conn, id)]
		if !ok || typ != requests.SubData {
			stray = append(stray, fmt.Sprintf("connection %d: unexpected frame %s", conn, shortStr(f.Raw, 200)))
			return
		}
		p, _ := f.Msg["payload"].(map[string]interface{})
		got[i] = append(got[i], c17Frame{Conn: conn, ID: id, Type: typ, Payload: p})
	}
	// wait until every subscription has as many frames as expected (or time out)
	settle := func(timeout time.Duration) {
		deadline := time.Now().Add(timeout)
		for time.Now().Before(deadline) {
			done := true
			for i := range c.Subs {
				if len(got[i]) < len(expected[i]) {
					done = false
				}
			}
			if done {
				return
			}
			for ci, cl := range clients {
				select {
				case f := <-cl.Frames:
					if f.Msg != nil && f.Msg["type"] == requests.SubConnectionKeepAlive {
						continue
					}
					take(ci, f)
				default:
				}
			}
			time.Sleep(time.Millisecond)
		}
	}
	doEmit := func(e c17Emit) string {
		s := c.Subs[e.Sub]
		up := ups[e.Sub]
		if up == nil || ended[e.Sub] {
			return ""
		}
		evs := w.SubEvents[s.Field]
		if len(evs) == 0 {
			return "skip: no events for " + s.Field
		}
		w.Store.Roots["Subscription"][s.Field] = evs[e.Event%len(evs)]
		owner := r.Services[w.SubOwner[s.Field]]
		data, errs, _ := owner.Answer(up.Start, 0)
		if errs != nil {
			return fmt.Sprintf("the owning service rejects the root sub-request %q: %v", up.Start.Query, errs)
		}
		want, rerr := r.Reference(s.Op)
		if rerr != nil {
			return "skip: reference: " + rerr.Error()
		}
		switch e.Kind {
		case "data":
			expected[e.Sub] = append(expected[e.Sub], c17Expect{data: normJSON(want)})
			up.Data(data, nil)
		case "data_with_errors":
			expected[e.Sub] = append(expected[e.Sub], c17Expect{data: "*", errs: true})
			up.Data(data, []interface{}{map[string]interface{}{"message": "partial failure upstream"}})
		case "error_msg":
			expected[e.Sub] = append(expected[e.Sub], c17Expect{data: "null", errs: true})
			up.ErrorMsg([]interface{}{map[string]interface{}{"message": "operation failed upstream"}})
		}
		return ""
	}
	for _, st := range c.Steps {
		switch st.Kind {
		case "start":
			s := c.Subs[st.Sub]
			payload := map[string]interface{}{"query": s.Op.Query}
			if s.Op.Variables != nil {
				payload["variables"] = s.Op.Variables
			}
			if s.Op.OperationName != "" {
				payload["operationName"] = s.Op.OperationName
			}
			clients[s.Conn].Send(map[string]interface{}{"type": requests.SubStart, "id": s.ID, "payload": payload})
			up := r.Ups[w.SubOwner[s.Field]]
			if up == nil {
				return "skip: no owner for " + s.Field
			}
			msgs[s.Conn] = append(msgs[s.Conn], fmt.Sprintf("MStart %q %d true", s.ID, st.Sub))
			ups[st.Sub] = up.Accept(3 * time.Second)
			entryNo[st.Sub] = nextEntry[s.Conn]
			nextEntry[s.Conn]++
			acts[s.Conn] = append(acts[s.Conn], fmt.Sprintf("ASpawn %d %q %d", entryNo[st.Sub], s.ID, st.Sub))
			if ups[st.Sub] == nil {
				settle(50 * time.Millisecond)
				return fmt.Sprintf("subscription %s (%s) was not started upstream within 3s; %v", s.ID, s.Op.Query, stray)
			}
		case "emit", "burst":
			for _, e := range st.Emits {
				if bad := doEmit(e); bad != "" {
					return bad
				}
			}
			settle(5 * time.Second)
		case "stop":
			s := c.Subs[st.Sub]
			clients[s.Conn].Send(map[string]interface{}{"type": requests.SubStop, "id": s.ID})
			msgs[s.Conn] = append(msgs[s.Conn], fmt.Sprintf("MStop %q", s.ID))
			ended[st.Sub] = true
			if ups[st.Sub] != nil && !ups[st.Sub].WaitClosed(3*time.Second) {
				return fmt.Sprintf("stop of %s did not close the upstream connection within 3s", s.ID)
			}
		case "complete":
			if ups[st.Sub] != nil {
				ups[st.Sub].Complete()
				ended[st.Sub] = true
			}
		}
	}
	settle(2 * time.Second)
	// nothing more may arrive
	time.Sleep(30 * time.Millisecond)
	for ci, cl := range clients {
	drain:
		for {
			select {
			case f := <-cl.Frames:
				if f.Msg != nil && f.Msg["type"] == requests.SubConnectionKeepAlive {
					continue
				}
				take(ci, f)
			default:
				break drain
			}
		}
	}
	if len(stray) > 0 {
		return strings.Join(stray, "; ")
	}
	for i, s := range c.Subs {
		if len(got[i]) != len(expected[i]) {
			return fmt.Sprintf("subscription %s: %d events emitted upstream, %d data frames delivered", s.ID, len(expected[i]), len(got[i]))
		}
		for k, e := range expected[i] {
			p := got[i][k].Payload
			errs, _ := p["errors"].([]interface{})
			if e.errs != (len(errs) > 0) {
				return fmt.Sprintf("subscription %s event %d: upstream errors present=%v, forwarded errors=%v", s.ID, k, e.errs, p["errors"])
			}
			if e.data != "*" && normJSON(p["data"]) != e.data {
				return fmt.Sprintf("subscription %s (%s, variables %v) event %d: delivered %s, the single server gives %s", s.ID, s.Op.Query, s.Op.Variables, k, shortStr(normJSON(p["data"]), 300), shortStr(e.data, 300))
			}
		}
		obs.Count(fmt.Sprintf("events_per_subscription_%02d", len(expected[i])))
	}
	for _, cl := range clients {
		cl.Send(map[string]interface{}{"type": requests.SubConnectionTerminate})
	}
	for i, up := range ups {
		if up != nil && !up.WaitClosed(3*time.Second) {
			return fmt.Sprintf("after connection_terminate the upstream connection of %s is still open", c.Subs[i].ID)
		}
		if up != nil {
			acts[c.Subs[i].Conn] = append(acts[c.Subs[i].Conn], fmt.Sprintf("AClose %d", entryNo[i]))
		}
	}
	// let the goroutines of the entries report their last steps
	time.Sleep(30 * time.Millisecond)
	traces := tr.snapshot()
	for ci := 0; ci < c.Conns; ci++ {
		var ts []string
		for i, s := range c.Subs {
			if s.Conn != ci || ups[i] == nil {
				continue
			}
			for _, t := range traces {
				if t.ID == s.ID {
					ts = append(ts, coqTrace(t, true, len(got[i])))
				}
			}
		}
		*coq = append(*coq, fmt.Sprintf("mkCase [%s] [%s]\n   [%s]", strings.Join(append(msgs[ci], "MTerminate"), "; "), strings.Join(acts[ci], "; "), strings.Join(ts, ";\n    ")))
	}
	return ""
}

func driveC17(seed int64, tier, out, replay string) {
	obs := hx.NewObs("C17", seed, tier)
	rng := hx.NewRand(seed)
	n := 60
	if tier == "thorough" {
		n = 600
	}
	var cases []c17Case
	if replay != "" {
		cases = loadReplayCases[c17Case](replay)
	} else {
		cfgs := []RigConfig{{}, {Cached: true}, {HideNode: true}}
		for tries := 0; len(cases) < n && tries < 10*n; tries++ {
			if c, ok := genC17Case(rand.New(rand.NewSource(rng.Int63())), cfgs[len(cases)%len(cfgs)]); ok {
				cases = append(cases, c)
			}
		}
	}
	distinct := map[string]bool{}
	var coq []string
	for i, c := range cases {
		hx.Current(out, i, c)
		obs.Evaluations++
		obs.CaseInputs = append(obs.CaseInputs, c)
		before := len(coq)
		what := runC17(c, obs, &coq)
		if what != "" {
			coq = coq[:before]
		}
		for len(coq) < before+2 { // two slots per history keep case numbers aligned with the history index
			coq = append(coq, "mkCase [] [] []")
		}
		if strings.HasPrefix(what, "skip:") {
			obs.Count("skipped")
			continue
		}
		obs.Count(fmt.Sprintf("connections_%d", c.Conns))
		obs.Count(fmt.Sprintf("subscriptions_%d", len(c.Subs)))
		var kinds []string
		for _, st := range c.Steps {
			kinds = append(kinds, st.Kind)
			obs.Count("step_" + st.Kind)
		}
		sort.Strings(kinds)
		distinct[fmt.Sprint(c.WorldSeed)] = true
		if what != "" {
			obs.Fail(i, what, c)
		}
	}
	obs.DistinctNontrivial = len(distinct)
	obs.Rule = "generated federations with Subscription root fields behind a real gateway (HTTP server, graphql-ws), graphql-ws upstreams per service reached through MultiOpQueryer.Subscribe; histories of start / emit / burst / stop / upstream-complete over 1-2 connections and 1-4 subscriptions (copies of one operation with other variable values included); every delivered data frame is compared with the single server's answer for that subscription's operation and event"
	hx.WriteCasesSharded(out, "From Coq Require Import List String.\nFrom Pebbles Require Import Sub.LTS Sub.Conn Corr.C18.\nImport ListNotations.\nOpen Scope string_scope.\n", "c18case", coq, "mismatches", 20)
	obs.Write(out)
}
