package main

import (
	"encoding/json"
	"fmt"
	"math/rand"
	"reflect"
	"runtime"
	"strings"
	"sync"
	"time"

	"github.com/buildbuildio/pebbles/common"

	"verif/harness/fake"
	"verif/harness/gen"
	"verif/harness/hx"
)

func init() { drivers["C08"] = driveC08 }

type c08Case struct {
	WorldSeed int64       `json:"world_seed"`
	Ops       []gen.GenOp `json:"operations"`
	Perturb   int64       `json:"perturbation_seed"`
	SlowKey   string      `json:"slow_substring,omitempty"`
	Cached    bool        `json:"cached_planner"`
}

func genBatch(rng *rand.Rand, r *Rig) []gen.GenOp {
	n := rng.Intn(7)
	var ops []gen.GenOp
	for i := 0; i < n; i++ {
		switch k := rng.Intn(10); {
		case k < 5:
			ops = append(ops, gen.Operation(rng, r.Merged, opOptionsFor("inD01", r.World)))
		case k < 6:
			ops = append(ops, gen.GenOp{Query: "{ __schema { queryType { name } } }", Kind: "introspection"})
		case k < 7:
			ops = append(ops, gen.GenOp{Query: `{ __type(name: "Query") { name kind } }`, Kind: "introspection"})
		case k < 8:
			bad, _ := invalidate(rng, gen.Operation(rng, r.Merged, opOptionsFor("inD01", r.World)))
			bad.Kind = "invalid"
			ops = append(ops, bad)
		case k < 9 && len(ops) > 0:
			ops = append(ops, ops[rng.Intn(len(ops))]) // the same operation twice
		default:
			o := opOptionsFor("inD01", r.World)
			o.Mutation = true
			ops = append(ops, gen.Operation(rng, r.Merged, o))
		}
	}
	return ops
}

func driveC08(seed int64, tier, out, replay string) {
	rng := hx.NewRand(seed)
	obs := hx.NewObs("C08", seed, tier)
	nWorlds, per := 10, 14
	if tier == "thorough" {
		nWorlds, per = 80, 40
	}
	var cases []c08Case
	if replay != "" {
		cases = loadReplayCases[c08Case](replay)
	}
	rigs := map[string]*Rig{}
	rigFor := func(ws int64, cached bool) *Rig {
		k := fmt.Sprint(ws, cached)
		if r, ok := rigs[k]; ok {
			return r
		}
		r, err := NewRig(worldFor(ws, "inD01"), RigConfig{Cached: cached})
		if err != nil {
			r = nil
		}
		rigs[k] = r
		return r
	}
	if replay == "" {
		for i := 0; i < nWorlds; i++ {
			ws := rng.Int63()
			r := rigFor(ws, false)
			if r == nil {
				continue
			}
			for j := 0; j < per; j++ {
				c := c08Case{WorldSeed: ws, Ops: genBatch(rng, r), Perturb: rng.Int63(), Cached: j%5 == 4}
				if len(c.Ops) > 0 && rng.Intn(3) == 0 {
					// make one operation slow: any query mentioning its first root field
					q := c.Ops[rng.Intn(len(c.Ops))].Query
					if i := strings.Index(q, "q"); i >= 0 && i+4 <= len(q) {
						c.SlowKey = q[i : i+4]
					}
				}
				cases = append(cases, c)
			}
		}
	}
	var coq []string
	distinct := map[string]bool{}
	for idx, c := range cases {
		hx.Current(out, idx, c)
		r := rigFor(c.WorldSeed, c.Cached)
		if r == nil {
			continue
		}
		// solo answers first (no delays, no perturbation)
		for _, s := range r.Services {
			s.Delay = nil
		}
		solo := make([]string, len(c.Ops))
		for i, op := range c.Ops {
			o := r.PostRaw(opBody(op), "application/json")
			var v interface{}
			json.Unmarshal(o.Body, &v)
			solo[i] = fake.CanonJSON(v)
		}
		// the batch, with perturbed scheduling and the reducer's arrival order recorded
		var mu sync.Mutex
		var inst any
		var arrivals [][2]interface{}
		prng := rand.New(rand.NewSource(c.Perturb))
		common.SetVerifHook(func(point string, args ...any) {
			mu.Lock()
			if point == "amr.c.start" && inst == nil {
				inst = args[0]
			}
			mine := inst != nil && len(args) > 0 && args[0] == inst
			if mine && point == "amr.r.recvres" {
				v := reflect.ValueOf(args[1])
				if v.Kind() == reflect.Ptr && v.Elem().Kind() == reflect.Struct {
					f := v.Elem().FieldByName("index")
					d := v.Elem().FieldByName("Data")
					e := v.Elem().FieldByName("Errors")
					if f.IsValid() {
						var data, errs interface{}
						if d.IsValid() && d.CanInterface() {
							data = d.Interface()
						}
						if e.IsValid() && e.CanInterface() {
							errs = e.Interface()
						}
						arrivals = append(arrivals, [2]interface{}{int(f.Int()), map[string]interface{}{"data": data, "errors": errs}})
					}
				}
			}
			var d time.Duration
			yield := false
			switch prng.Intn(6) {
			case 0:
				yield = true
			case 1:
				d = time.Duration(prng.Intn(150)) * time.Microsecond
			}
			mu.Unlock()
			if yield {
				runtime.Gosched()
			}
			if d > 0 {
				time.Sleep(d)
			}
		})
		if c.SlowKey != "" {
			for _, s := range r.Services {
				s.Delay = map[string]time.Duration{c.SlowKey: 3 * time.Millisecond}
			}
		}
		parts := make([]string, len(c.Ops))
		for i, op := range c.Ops {
			parts[i] = string(opBody(op))
		}
		o := r.PostRaw([]byte("["+strings.Join(parts, ",")+"]"), "application/json")
		common.SetVerifHook(nil)
		for _, s := range r.Services {
			s.Delay = nil
		}
		what := ""
		var arr []interface{}
		switch {
		case o.Panic != "":
			what = "handler panicked on a batch: " + o.Panic
		case o.TimedOut:
			what = "handler hung on a batch"
		default:
			if err := json.Unmarshal(o.Body, &arr); err != nil {
				what = "batch response is not a JSON array: " + shortStr(string(o.Body), 200)
			} else if len(arr) != len(c.Ops) {
				what = fmt.Sprintf("batch of %d operations answered with %d results", len(c.Ops), len(arr))
			} else {
				for i := range arr {
					if got := fake.CanonJSON(arr[i]); got != solo[i] {
						what = fmt.Sprintf("result %d of the batch differs from the answer operation %d gets alone: batch %s alone %s", i, i, shortStr(got, 250), shortStr(solo[i], 250))
						break
					}
				}
			}
		}
		if what != "" {
			obs.Fail(idx, what, c)
		}
		// model case: digests
		ids := map[string]int{}
		id := func(s string) int {
			if v, ok := ids[s]; ok {
				return v
			}
			ids[s] = len(ids) + 1
			return ids[s]
		}
		var arrs []string
		mu.Lock()
		for _, a := range arrivals {
			m := a[1].(map[string]interface{})
			res := map[string]interface{}{"data": m["data"]}
			b, _ := json.Marshal(m["errors"])
			if string(b) != "null" && string(b) != "[]" {
				var e interface{}
				json.Unmarshal(b, &e)
				res["errors"] = e
			}
			b2, _ := json.Marshal(res)
			var v interface{}
			json.Unmarshal(b2, &v)
			arrs = append(arrs, fmt.Sprintf("(%d, %d)", a[0].(int), id(fake.CanonJSON(v))))
		}
		mu.Unlock()
		var resp []int
		for _, x := range arr {
			resp = append(resp, id(fake.CanonJSON(x)))
		}
		coq = append(coq, fmt.Sprintf("mkCase %d [%s] %s", len(c.Ops), strings.Join(arrs, "; "), hx.CoqNatList(resp)))
		obs.CaseInputs = append(obs.CaseInputs, c)
		obs.Count(fmt.Sprintf("batch_len_%d", len(c.Ops)))
		for _, op := range c.Ops {
			obs.Count("op_" + op.Kind)
		}
		if c.SlowKey != "" {
			obs.Count("with_slow_operation")
		}
		if len(c.Ops) >= 2 {
			distinct[strings.Join(parts, "|")+fmt.Sprint(arrs)] = true
		}
		if idx%29 == 3 && len(obs.Samples) < 4 {
			obs.Samples = append(obs.Samples, map[string]interface{}{"batch": parts, "arrival_order": arrs, "slow": c.SlowKey})
		}
	}
	obs.Evaluations = len(coq)
	obs.DistinctNontrivial = len(distinct)
	obs.Rule = "batches of 0-6 operations (valid queries, mutations, introspection, operations invalidated 8 ways, repeated operations), optionally one slow operation, under randomly perturbed goroutine scheduling (yields/sleeps at every verif hook point); each batch is compared with the N operations sent alone; the arrival order at the batch reducer is recorded through the verif hook; distinct by (batch text, arrival order)"
	hx.WriteCases(out, "From Pebbles Require Import Net.BatchResp Corr.C08.\nFrom Coq Require Import List. Import ListNotations.\n", "c8case", coq, "mismatches")
	obs.Write(out)
}
