package main

import (
	"fmt"
	"sort"
	"strings"

	"github.com/buildbuildio/pebbles/merger"
	"github.com/vektah/gqlparser/v2"
	"github.com/vektah/gqlparser/v2/ast"

	"verif/harness/coqprint"
	"verif/harness/gen"
	"verif/harness/hx"
)

// ---- shared by C03, C04, C05 ----

type mergeCase struct {
	SDLs   []string `json:"sdl"` // one per service, in list order
	URLs   []string `json:"urls"`
	Hide   bool     `json:"hide_node_merger"`
	Origin string   `json:"origin"` // "mergeable", "conflict:<kind>", "perm"
}

type tmEntry struct {
	Type   string
	IsNode bool
	Fields [][2]string
}

type mergeObs struct {
	Outcome string // ok | err:<class> | reload | panic
	Err     string
	Types   []coqprint.CanonDef
	TM      []tmEntry
	Inputs  [][]coqprint.CanonDef
	Result  *merger.MergeResult
	InSch   []*ast.Schema
}

func classifyMergeErr(msg string) string {
	switch {
	case strings.HasPrefix(msg, "name collision"):
		return "ENameCollision"
	case strings.HasPrefix(msg, "union collision"):
		return "EUnionCollision"
	case strings.HasPrefix(msg, "interface collision"):
		return "EInterfaceCollision"
	case strings.HasPrefix(msg, "node interface collision"):
		return "ENodeCollision"
	case strings.HasPrefix(msg, "overlapping root types fields"):
		return "ERootOverlap"
	case strings.HasPrefix(msg, "overlapping fields, not complete copy"):
		return "EOverlapPartial"
	case strings.HasPrefix(msg, "overlapping fields"):
		return "EOverlapNode"
	}
	return ""
}

func loadSDL(sdl string) (*ast.Schema, error) {
	s, err := gqlparser.LoadSchema(&ast.Source{Name: "svc", Input: sdl})
	if err != nil {
		return nil, err
	}
	return s, nil
}

func runMerge(c mergeCase) (o mergeObs) {
	var inputs []*merger.MergeInput
	for i, sdl := range c.SDLs {
		s, err := loadSDL(sdl)
		if err != nil {
			o.Outcome = "badinput"
			o.Err = err.Error()
			return
		}
		o.Inputs = append(o.Inputs, coqprint.CanonSchema(s))
		o.InSch = append(o.InSch, s)
		inputs = append(inputs, &merger.MergeInput{Schema: s, URL: c.URLs[i]})
	}
	defer func() {
		if r := recover(); r != nil {
			o.Outcome = "panic"
			o.Err = fmt.Sprint(r)
		}
	}()
	var m merger.Merger = merger.ExtendMergerFunc(nil)
	if c.Hide {
		m = merger.SanitizeNodeMergerFunc(nil)
	}
	res, err := m.Merge(inputs)
	if err != nil {
		if cl := classifyMergeErr(err.Error()); cl != "" {
			o.Outcome = "err:" + cl
		} else {
			o.Outcome = "reload"
		}
		o.Err = err.Error()
		return
	}
	o.Outcome = "ok"
	o.Result = res
	o.Types = coqprint.CanonSchema(res.Schema)
	var tnames []string
	for t := range res.TypeURLMap {
		tnames = append(tnames, t)
	}
	sort.Strings(tnames)
	for _, t := range tnames {
		p := res.TypeURLMap[t]
		e := tmEntry{Type: t, IsNode: p.IsImplementsNode}
		var fns []string
		for f := range p.Fields {
			fns = append(fns, f)
		}
		sort.Strings(fns)
		for _, f := range fns {
			e.Fields = append(e.Fields, [2]string{f, p.Fields[f]})
		}
		o.TM = append(o.TM, e)
	}
	return
}

func mergeCoqCase(c mergeCase, o mergeObs) string {
	ins := make([]string, len(o.Inputs))
	for i, in := range o.Inputs {
		ins[i] = fmt.Sprintf("(%s,\n     %s)", hx.CoqString(c.URLs[i]), coqprint.CoqSchema(in))
	}
	var obs string
	switch {
	case o.Outcome == "ok":
		tms := make([]string, len(o.TM))
		for i, e := range o.TM {
			fs := make([]string, len(e.Fields))
			for j, f := range e.Fields {
				fs[j] = fmt.Sprintf("(%s, %s)", hx.CoqString(f[0]), hx.CoqString(f[1]))
			}
			tms[i] = fmt.Sprintf("(%s, %s, %s)", hx.CoqString(e.Type), hx.CoqBool(e.IsNode), hx.CoqList(fs))
		}
		obs = fmt.Sprintf("(OOk %s\n     %s)", coqprint.CoqSchema(o.Types), hx.CoqList(tms))
	case strings.HasPrefix(o.Outcome, "err:"):
		k := strings.TrimPrefix(o.Outcome, "err:")
		if k == "EInterfaceCollision" {
			obs = "OOther"
		} else {
			obs = "(OErr " + k + ")"
		}
	case o.Outcome == "reload":
		obs = "OReload"
	default:
		obs = "OOther"
	}
	return fmt.Sprintf("mkCase %s\n    [%s]\n    %s", hx.CoqBool(c.Hide), strings.Join(ins, ";\n     "), obs)
}

func setToCase(ss []*gen.Service, hide bool, origin string) mergeCase {
	c := mergeCase{Hide: hide, Origin: origin}
	for _, s := range ss {
		c.SDLs = append(c.SDLs, s.SDL())
		c.URLs = append(c.URLs, s.URL)
	}
	return c
}

func permuteCase(c mergeCase, p []int) mergeCase {
	n := mergeCase{Hide: c.Hide, Origin: c.Origin + "+perm"}
	for _, i := range p {
		n.SDLs = append(n.SDLs, c.SDLs[i])
		n.URLs = append(n.URLs, c.URLs[i])
	}
	return n
}
