package main

import (
	"fmt"
	"sort"
	"strings"

	"github.com/buildbuildio/pebbles/common"
	"github.com/buildbuildio/pebbles/merger"
	"github.com/buildbuildio/pebbles/planner"
	"github.com/vektah/gqlparser/v2"
	"github.com/vektah/gqlparser/v2/ast"

	"verif/harness/coqprint"
	"verif/harness/gen"
	"verif/harness/hx"
)

// ---- shared by C03, C04, C05 ----

type mergeCase struct {
	SDLs   []string `json:"sdl"` // one per service, in list order
	URLs   []string `json:"urls"`
	Hide   bool     `json:"hide_node_merger"`
	Origin string   `json:"origin"` // "mergeable", "conflict:<kind>", "perm"
}

type tmEntry struct {
	Type   string
	IsNode bool
	Fields [][2]string
}

type mergeObs struct {
	Outcome string // ok | err:<class> | reload | panic
	Err     string
	Types   []coqprint.CanonDef
	TM      []tmEntry
	Inputs  [][]coqprint.CanonDef
	Result  *merger.MergeResult
	InSch   []*ast.Schema
	Routes  []routeObs // PlanningContext.GetURL over the table (C04 only)
	RouteOp string     // "" or the first (type, field, from) whose route depends on the kind of the running operation
}

// routeObs is one reading of the routing table the way the planner reads it.
type routeObs struct {
	Type, Field, From string
	Result            string // "url:<u>" | "notype" | "nofield" | "other:<msg>"
}

// observeRoutes asks the real PlanningContext.GetURL for every (type, field) of the table — plus a builtin
// field and a type the table does not know — from every parent service and from the internal pseudo-service,
// under each kind of running operation.
func observeRoutes(c mergeCase, o *mergeObs) {
	froms := append(append([]string{}, c.URLs...), common.InternalServiceName)
	kinds := []ast.Operation{ast.Query, ast.Mutation, ast.Subscription}
	ask := func(k ast.Operation, t, f, from string) (res string) {
		defer func() {
			if r := recover(); r != nil {
				res = fmt.Sprint("other:panic: ", r)
			}
		}()
		pc := &planner.PlanningContext{Operation: &ast.OperationDefinition{Operation: k}, TypeURLMap: o.Result.TypeURLMap, Schema: o.Result.Schema}
		u, err := pc.GetURL(t, f, from)
		switch {
		case err == nil:
			return "url:" + u
		case strings.HasPrefix(err.Error(), "could not find location type"):
			return "notype"
		case strings.HasPrefix(err.Error(), "could not find location for field"):
			return "nofield"
		}
		return "other:" + err.Error()
	}
	one := func(t, f string) {
		for _, from := range froms {
			r0 := ask(kinds[0], t, f, from)
			for _, k := range kinds[1:] {
				if r := ask(k, t, f, from); r != r0 && o.RouteOp == "" {
					o.RouteOp = fmt.Sprintf("%s.%s asked from %q is routed to %s while a query runs and to %s while a %s runs", t, f, from, r0, r, k)
				}
			}
			o.Routes = append(o.Routes, routeObs{t, f, from, r0})
		}
	}
	for i, e := range o.TM {
		for _, f := range e.Fields {
			one(e.Type, f[0])
		}
		if i < 2 || e.Type == "Query" || e.Type == "Mutation" {
			one(e.Type, "__typename")
			one(e.Type, "no_such_field")
		}
	}
	one("NoSuchType", "x")
}

func classifyMergeErr(msg string) string {
	switch {
	case strings.HasPrefix(msg, "name collision"):
		return "ENameCollision"
	case strings.HasPrefix(msg, "union collision"):
		return "EUnionCollision"
	case strings.HasPrefix(msg, "interface collision"):
		return "EInterfaceCollision"
	case strings.HasPrefix(msg, "node interface collision"):
		return "ENodeCollision"
	case strings.HasPrefix(msg, "overlapping root types fields"):
		return "ERootOverlap"
	case strings.HasPrefix(msg, "overlapping fields with different type or arguments"):
		return "ESignature"
	case strings.HasPrefix(msg, "overlapping fields, not complete copy"):
		return "EOverlapPartial"
	case strings.HasPrefix(msg, "overlapping fields"):
		return "EOverlapNode"
	}
	return ""
}

func loadSDL(sdl string) (*ast.Schema, error) {
	s, err := gqlparser.LoadSchema(&ast.Source{Name: "svc", Input: sdl})
	if err != nil {
		return nil, err
	}
	return s, nil
}

func runMerge(c mergeCase) (o mergeObs) {
	var inputs []*merger.MergeInput
	for i, sdl := range c.SDLs {
		s, err := loadSDL(sdl)
		if err != nil {
			o.Outcome = "badinput"
			o.Err = err.Error()
			return
		}
		o.Inputs = append(o.Inputs, coqprint.CanonSchema(s))
		o.InSch = append(o.InSch, s)
		inputs = append(inputs, &merger.MergeInput{Schema: s, URL: c.URLs[i]})
	}
	defer func() {
		if r := recover(); r != nil {
			o.Outcome = "panic"
			o.Err = fmt.Sprint(r)
		}
	}()
	var m merger.Merger = merger.ExtendMergerFunc(nil)
	if c.Hide {
		m = merger.SanitizeNodeMergerFunc(nil)
	}
	res, err := m.Merge(inputs)
	if err != nil {
		if cl := classifyMergeErr(err.Error()); cl != "" {
			o.Outcome = "err:" + cl
		} else {
			o.Outcome = "reload"
		}
		o.Err = err.Error()
		return
	}
	o.Outcome = "ok"
	o.Result = res
	o.Types = coqprint.CanonSchema(res.Schema)
	var tnames []string
	for t := range res.TypeURLMap {
		tnames = append(tnames, t)
	}
	sort.Strings(tnames)
	for _, t := range tnames {
		p := res.TypeURLMap[t]
		e := tmEntry{Type: t, IsNode: p.IsImplementsNode}
		var fns []string
		for f := range p.Fields {
			fns = append(fns, f)
		}
		sort.Strings(fns)
		for _, f := range fns {
			e.Fields = append(e.Fields, [2]string{f, p.Fields[f]})
		}
		o.TM = append(o.TM, e)
	}
	return
}

func mergeCoqCase(c mergeCase, o mergeObs) string {
	ins := make([]string, len(o.Inputs))
	for i, in := range o.Inputs {
		ins[i] = fmt.Sprintf("(%s,\n     %s)", hx.CoqString(c.URLs[i]), coqprint.CoqSchema(in))
	}
	var obs string
	switch {
	case o.Outcome == "ok":
		tms := make([]string, len(o.TM))
		for i, e := range o.TM {
			fs := make([]string, len(e.Fields))
			for j, f := range e.Fields {
				fs[j] = fmt.Sprintf("(%s, %s)", hx.CoqString(f[0]), hx.CoqString(f[1]))
			}
			tms[i] = fmt.Sprintf("(%s, %s, %s)", hx.CoqString(e.Type), hx.CoqBool(e.IsNode), hx.CoqList(fs))
		}
		obs = fmt.Sprintf("(OOk %s\n     %s)", coqprint.CoqSchema(o.Types), hx.CoqList(tms))
	case strings.HasPrefix(o.Outcome, "err:"):
		k := strings.TrimPrefix(o.Outcome, "err:")
		if k == "EInterfaceCollision" {
			obs = "OOther"
		} else {
			obs = "(OErr " + k + ")"
		}
	case o.Outcome == "reload":
		obs = "OReload"
	default:
		obs = "OOther"
	}
	rs := make([]string, len(o.Routes))
	for i, r := range o.Routes {
		var x string
		switch {
		case strings.HasPrefix(r.Result, "url:"):
			x = "ORUrl " + hx.CoqString(strings.TrimPrefix(r.Result, "url:"))
		case r.Result == "notype":
			x = "ORNoType"
		case r.Result == "nofield":
			x = "ORNoField"
		default:
			x = "OROther"
		}
		rs[i] = fmt.Sprintf("(%s, %s, %s, %s)", hx.CoqString(r.Type), hx.CoqString(r.Field), hx.CoqString(r.From), x)
	}
	return fmt.Sprintf("mkCase %s\n    [%s]\n    %s\n    %s", hx.CoqBool(c.Hide), strings.Join(ins, ";\n     "), obs, hx.CoqList(rs))
}

func setToCase(ss []*gen.Service, hide bool, origin string) mergeCase {
	c := mergeCase{Hide: hide, Origin: origin}
	for _, s := range ss {
		c.SDLs = append(c.SDLs, s.SDL())
		c.URLs = append(c.URLs, s.URL)
	}
	return c
}

func permuteCase(c mergeCase, p []int) mergeCase {
	n := mergeCase{Hide: c.Hide, Origin: c.Origin + "+perm"}
	for _, i := range p {
		n.SDLs = append(n.SDLs, c.SDLs[i])
		n.URLs = append(n.URLs, c.URLs[i])
	}
	return n
}
