package main

import (
	"encoding/json"
	"fmt"
	"os"
)

// A replay file carries {"property":..., "cases":[<case inputs>], ...}; drivers re-run exactly those inputs.
func loadReplayCases[T any](path string) []T {
	b, err := os.ReadFile(path)
	if err != nil {
		fmt.Fprintln(os.Stderr, "replay:", err)
		os.Exit(2)
	}
	var r struct {
		Cases []T `json:"cases"`
	}
	if err := json.Unmarshal(b, &r); err != nil {
		fmt.Fprintln(os.Stderr, "replay:", err)
		os.Exit(2)
	}
	return r.Cases
}

func jsonUnmarshal(b []byte, v interface{}) error { return json.Unmarshal(b, v) }

func fileExists(p string) bool {
	_, err := os.Stat(p)
	return err == nil
}
