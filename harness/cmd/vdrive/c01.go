package main

import (
	"fmt"
	"path/filepath"
	"strings"

	"github.com/buildbuildio/pebbles/executor"
	"github.com/buildbuildio/pebbles/queryer"
	"github.com/buildbuildio/pebbles/requests"

	"verif/harness/coqprint"

	"verif/harness/fake"
	"verif/harness/gen"
	"verif/harness/hx"
)

func init() { drivers["C01"] = driveC01 }

type fedCase struct {
	WorldSeed int64      `json:"world_seed"`
	OpSeed    int64      `json:"op_seed"`
	Cfg       RigConfig  `json:"config"`
	SDLs      []string   `json:"sdl,omitempty"`
	Op        *gen.GenOp `json:"operation,omitempty"`
	Domain    string     `json:"domain"`
}

var handShapes = []string{
	`{ a: me { pets { owner { id name } } } b: me { pets { owner { name } } } }`,
	`{ a: humans { pets { owner { id name } } } b: humans { pets { owner { name } } } }`,
	`{ humans { pets { owner { name phone } weight } friend { pets { owner { id } } } } }`,
	`{ a: me { pets { __typename weight owner { __typename phone } } } b: me { pets { weight owner { phone } } } }`,
	`{ pets { owner { pets { owner { name phone } kind weight } } } }`,
	`{ beings { ... on Human { id name phone } ... on Pet { id kind weight } } }`,
	`{ a: pets { owner { id friend { id name phone } } } b: pets { owner { friend { phone } } } }`,
	`{ a: me { friend { name pets { kind } } phone } b: me { friend { id phone } } c: humans { friend { phone name } } }`,
	// __typename asked for in one fragment only (fix a47d390)
	`{ beings { ... on Human { name ... on Human { __typename } } ... on Pet { id kind } } }`,
	`{ beings { ... on Human { id name ... on Human { __typename } } ... on Pet { kind weight } } }`,
	`{ humans { pets { kind } } beings { ... on Pet { __typename weight } ... on Human { id phone } } }`,
	// the client's own id under an alias or a directive, next to a fragment that gets a helper id
	`{ me { uid: id ... on Human { name } } }`,
	`{ humans { uid: id ... on Human { friend { uid: id ... on Human { name } } } } }`,
	// a helper added for an abstract type condition (fix 580253b; formerly the listed finding C01-node-fragment-in-object)
	`{ humans { pets { ... on Node { id } kind weight } } }`,
	// a helper the client selects himself through one fragment and another fragment gets as a helper (fix 75235b9;
	// the first one formerly the listed finding C01-id-through-sibling-fragment)
	`{ beings { ... on Node { id } ... on Human { name } } }`,
	`{ beings { ... on Node { __typename } } }`,
	`{ beings { ... on Human { name __typename } ... on Node { id } } }`,
	`{ me { ... on Human { name } ... on Node { id } } pets { ... on Node { __typename } weight } }`,
	// both helper fields reach one level, one through each fragment (fix: helpers carry their response key)
	`{ me { ... on Human { name } ... on Node { uid: id } } }`,
	// fragments on object types inside fragments on abstract types (fix 9f8e2bb; the first one formerly the listed
	// finding C01-concrete-fragment-in-abstract-fragment), an id inside one fragment only (fix 82435c2)
	`{ me { ... on Node { ... on Pet { weight } } phone } }`,
	`{ me { ... on Node { ... on Human { phone } ... on Pet { weight } } name } }`,
	`{ pets { ... on Node { ... on Node { __typename } } weight } }`,
	`{ beings { ... on Node { ... on Pet { weight } id } } }`,
	`{ beings { ... on Being { ... on Node { ... on Human { phone } } } } }`,
	`{ beings { ... on Node { ... on Human { phone } } } }`,
	// a member type of a union nothing is selected for, in a list with the others (fix ba7bf6b; the first one formerly
	// the listed finding C01-union-member-without-fields)
	`{ beings { ... on Pet { weight } } }`,
	`{ beings { ... on Human { phone } } }`,
	`{ humans { friend { name } pets { owner { phone } } } beings { ... on Pet { owner { phone } } } }`,
	// one response key selected several times (fix 360a3f6; the first one formerly the listed finding
	// C01-duplicate-response-key)
	`{ me { name } me { phone } }`,
	`{ me { id name } me { phone } }`,
	`{ me { phone } me { id name friend { name } } me { friend { phone } } }`,
	`{ me { pets { id } pets { weight } } }`,
	`{ beings { ... on Human { name } } beings { ... on Human { phone } ... on Pet { weight } } }`,
	`{ humans { name ... on Human { name phone } } }`,
	// ... at the level of an ancestor (the fix after 360a3f6)
	`{ me { pets { id } } me { pets { weight } } }`,
	`{ me { pets { weight } } me { pets { id } } }`,
	`{ me { friend { id name } } me { friend { phone } } }`,
}

func worldFor(seed int64, domain string) *gen.World {
	if domain == "hand" {
		return handWorld()
	}
	if domain == "hand_matrix" {
		return handWorldMatrix()
	}
	opt := gen.DefaultWorldOptions()
	if domain == "inputs" {
		opt.InputArgs = true
	}
	if domain == "unions" {
		opt.UnionBias = true
	}
	if domain == "ifaces" || domain == "ifaces_wild" {
		opt.Interfaces = true
	}
	if domain == "ids" {
		opt.IDAlphabet = "#:. '\"/[]!"
	}
	return gen.NewWorld(hx.NewRand(seed), opt)
}

func opOptionsFor(domain string, w *gen.World) gen.OpOptions {
	o := gen.OpOptions{MaxDepth: 4, HelperNextToFragment: true, Aliases: true, InlineFrags: true, NamedFrags: true, Typename: true, Variables: true, Mutation: true, Directives: true}
	o.VarDefaults = true   // variables with a declared default and no value sent (since the fix of C02-client-default)
	o.DirectiveVars = true // @skip/@include(if: $v) on fields (since the fix of C02-directive-variable)
	o.IDs = w.Store.IDs()
	o.IDsByType = map[string][]string{}
	for _, t := range w.NodeType {
		o.IDsByType[t] = w.Store.IDsOfType(t)
	}
	return o
}

// compareFed applies C01 directly: data equals the single server's (modulo the tolerated pruning), errors empty.
func compareFed(r *Rig, op gen.GenOp) (string, map[string]interface{}) {
	want, err := r.Reference(op)
	if err != nil {
		return "skip:" + err.Error(), nil
	}
	r.ResetLogs()
	resp, o := r.Do(op)
	if o.Panic != "" {
		return "gateway handler panicked: " + o.Panic, nil
	}
	if o.TimedOut {
		return "gateway did not answer within 10s", nil
	}
	if resp == nil {
		return "gateway answer is not a JSON object: " + shortStr(string(o.Body), 200), nil
	}
	if e, ok := resp["errors"]; ok && e != nil {
		return "valid operation answered with errors: " + shortStr(fake.CanonJSON(e), 300), resp
	}
	got := normJSON(resp["data"])
	exp := normJSON(want)
	if got != exp {
		return fmt.Sprintf("data differs from the single server: got %s want %s", shortStr(got, 400), shortStr(exp, 400)), resp
	}
	return "", resp
}

func driveC01(seed int64, tier, out, replay string) {
	rng := hx.NewRand(seed)
	obs := hx.NewObs("C01", seed, tier)
	nWorlds, opsPer := 25, 12
	if tier == "thorough" {
		nWorlds, opsPer = 300, 30
	}
	var cases []fedCase
	if replay != "" {
		cases = loadReplayCases[fedCase](replay)
	} else {
		cfgs := []RigConfig{{}, {HideNode: true}, {Hint: true}, {Cached: true}, {HideNode: true, Hint: true, Cached: true}}
		// hand-written operations on the hand-written federation (Human.name/friend/pets@a, Human.phone@b,
		// Pet.kind@a, Pet.owner/weight@b): shapes in which several places of the result share entities and
		// de-duplicated sub-requests while differing in what is a helper and what the client asked for
		for i, q := range handShapes {
			op := gen.GenOp{Query: q, Kind: "query", Features: []string{"hand_shape"}}
			cases = append(cases, fedCase{Domain: "hand", Op: &op, Cfg: cfgs[i%len(cfgs)]}, fedCase{Domain: "hand", Op: &op, Cfg: cfgs[(i+1)%len(cfgs)]})
		}
		// lists of lists of a Node type (fix bf16ed1): no step below them, that is the listed shape
		for i, q := range []string{`{ me { matrix { kind } } }`, `{ humans { name matrix { id kind } } }`, `{ me { matrix { __typename kind } pets { kind } } }`} {
			op := gen.GenOp{Query: q, Kind: "query", Features: []string{"hand_shape"}}
			cases = append(cases, fedCase{Domain: "hand_matrix", Op: &op, Cfg: cfgs[i%len(cfgs)]})
		}
		for i := 0; i < nWorlds; i++ {
			ws := rng.Int63()
			for j := 0; j < opsPer; j++ {
				dom := "inD01"
				if i%2 == 1 {
					dom = "ids"
				}
				if i%5 == 4 {
					dom = "ifaces" // an interface whose implementers' fields are spread over services
				}
				if i%5 == 3 {
					// the same, with fragments on the type itself, on other abstract types, nested (since fixes
					// 75235b9, 2e934d6, c65e28f, 9f8e2bb, 82435c2 these are answered like any other operation)
					dom = "ifaces_wild"
				}
				cases = append(cases, fedCase{WorldSeed: ws, OpSeed: rng.Int63(), Cfg: cfgs[(i+j)%len(cfgs)], Domain: dom})
			}
		}
	}
	// the corpus of earlier failures (repaired defects) runs first
	if replay == "" && knownPath != "" {
		if cp := filepath.Join(filepath.Dir(knownPath), "corpus", "C01.json"); fileExists(cp) {
			cases = append(loadReplayCases[fedCase](cp), cases...)
		}
	}
	// listed findings: replayed on the hand-written federation
	if hand, err := NewRig(handWorld(), RigConfig{}); err == nil {
		handP, _ := NewRig(handWorldPayload(), RigConfig{})
		handM, _ := NewRig(handWorldMatrix(), RigConfig{})
		for _, k := range loadKnown("C01") {
			var kc struct {
				Op    gen.GenOp `json:"operation"`
				World string    `json:"world"` // "" = the hand-written federation, "payload" = with Mutation.doIt: Payload { query: Query }
			}
			if jsonUnmarshal(k.Input, &kc) != nil {
				continue
			}
			rig := hand
			if kc.World == "payload" && handP != nil {
				rig = handP
			}
			if kc.World == "matrix" && handM != nil {
				rig = handM
			}
			what, _ := compareFed(rig, kc.Op)
			if what != "" && !strings.HasPrefix(what, "skip:") {
				obs.KnownHit = append(obs.KnownHit, hx.Failure{Key: k.Key, What: k.Key + ": " + k.What})
			} else {
				obs.KnownGone = append(obs.KnownGone, k.Key)
			}
		}
	}
	var coq []string
	pde := executor.VerifNewPointDataExtractor()
	pointCase := func(point string) string {
		pd, err := pde.Extract(point)
		if err != nil {
			return fmt.Sprintf("CPoint %s None", coqprint.CoqStr(point))
		}
		ix := "None"
		if pd.Index >= 0 {
			ix = fmt.Sprintf("(Some %d)", pd.Index)
		}
		return fmt.Sprintf("CPoint %s (Some (%s, %s, %s))", coqprint.CoqStr(point), coqprint.CoqStr(pd.Field), ix, coqprint.CoqStr(pd.ID))
	}
	rigs := map[string]*Rig{}
	distinct := map[string]bool{}
	idx := 0
	for _, c := range cases {
		key := fmt.Sprint(c.WorldSeed, c.Cfg, c.Domain)
		r := rigs[key]
		if r == nil {
			w := worldFor(c.WorldSeed, c.Domain)
			var err error
			r, err = NewRig(w, c.Cfg)
			if err != nil {
				obs.Count("world_rejected")
				obs.Notes = append(obs.Notes, shortStr(err.Error(), 300))
				rigs[key] = nil
				continue
			}
			rigs[key] = r
		}
		var op gen.GenOp
		if c.Op != nil {
			op = *c.Op
		} else {
			oo := opOptionsFor(c.Domain, r.World)
			oo.TwinRoots = c.OpSeed%5 == 0
			oo.UnionPartial = c.OpSeed%3 == 0 // member types nothing is selected for (since fix ba7bf6b)
			if c.Domain == "ifaces_wild" {
				oo.Wild, oo.TwinRoots, oo.Directives, oo.NamedFrags = true, false, false, false
			}
			op = gen.Operation(hx.NewRand(c.OpSeed), r.Merged, oo)
		}
		c.SDLs = r.SDLs
		c.Op = &op
		hx.Current(out, idx, c)
		what, _ := compareFed(r, op)
		if strings.HasPrefix(what, "skip:") {
			obs.Count("generator_invalid_op")
			if len(obs.Notes) < 5 {
				obs.Notes = append(obs.Notes, what+" :: "+op.Query)
			}
			continue
		}
		logs := r.Logs()
		obs.CaseInputs = append(obs.CaseInputs, c)
		if what != "" {
			obs.Fail(idx, what, c)
		}
		// model side: the real Clean on the real pre-scrub result, and point data for this world's ids
		line := "CScrub (Corr.C13.mkCase [] [] [])"
		if o := selectedOp(r.Merged, op); o != nil {
			if _, plan, err := planCanon(r, op, o); err == nil {
				qs := map[string]queryer.Queryer{}
				for u, s := range r.Services {
					qs[u] = s
				}
				var pe executor.ParallelExecutor
				before, xerr := pe.Execute(&executor.ExecutionContext{QueryPlan: plan, Request: &requests.Request{Query: op.Query, Variables: op.Variables}, Queryers: qs})
				if xerr == nil && before != nil {
					beforeCoq := jsonObjToCoq(before)
					plan.ScrubFields.Clean(before)
					line = fmt.Sprintf("CScrub (Corr.C13.mkCase %s\n    %s\n    %s)", scrubToCoq(plan.ScrubFields), beforeCoq, jsonObjToCoq(before))
				}
			}
		}
		coq = append(coq, line)
		if ids := r.World.Store.IDs(); len(ids) > 0 {
			id := ids[idx%len(ids)]
			coq = append(coq, pointCase(fmt.Sprintf("items:%d#%s", idx%7, id)), pointCase("owner#"+id), pointCase(fmt.Sprintf("al%d:%d", idx%3, idx%11)))
			obs.CaseInputs = append(obs.CaseInputs, c, c, c)
		}
		urls := map[string]bool{}
		for _, l := range logs {
			urls[l.URL] = true
		}
		obs.Count(fmt.Sprintf("services_touched_%d", len(urls)))
		obs.Count(fmt.Sprintf("subrequests_%02d", min(len(logs), 20)))
		obs.Count("kind_" + op.Kind)
		for _, f := range op.Features {
			obs.Count("feature_" + f)
		}
		obs.Count("config_" + c.Cfg.String())
		if len(urls) >= 2 {
			distinct[op.Query+fmt.Sprint(c.WorldSeed)] = true
		}
		if idx%41 == 7 && len(obs.Samples) < 5 {
			obs.Samples = append(obs.Samples, map[string]interface{}{"operation": op, "config": c.Cfg, "services": len(r.SDLs), "subrequests": fake.SortedLog(logs)})
		}
		idx++
	}
	obs.Evaluations = idx
	obs.DistinctNontrivial = len(distinct)
	obs.Rule = "generated worlds (1-3 services, Node types split across services, value types, unions, lists with duplicates, nulls) x generated valid operations (depth<=4, aliases, arguments, variables, inline and named fragments, __typename, literal directives, mutations) x 5 gateway configurations; non-trivial = the plan touches at least 2 services; distinct by (world, operation text)"
	nFind := 150
	if tier == "thorough" {
		nFind = 1500
	}
	coq = append(coq, findCases(hx.NewRand(seed+77), nFind, obs)...)
	hx.WriteCases(out, "From Pebbles Require Import Base.Json Exec.Scrub Exec.PointData Exec.Points Corr.C13 Corr.C01.\nFrom Coq Require Import List String. Import ListNotations.\nOpen Scope string_scope.\n", "c1case", coq, "mismatches")
	obs.Write(out)
}

func min(a, b int) int {
	if a < b {
		return a
	}
	return b
}
