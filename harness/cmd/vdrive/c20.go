package main

import (
	"fmt"
	"math/rand"
	"runtime"
	"sort"
	"strconv"
	"strings"
	"sync"
	"sync/atomic"
	"time"

	"github.com/buildbuildio/pebbles/common"
	"github.com/buildbuildio/pebbles/gqlerrors"

	"verif/harness/hx"
)

func init() { drivers["C20"] = driveC20 }

type c20Case struct {
	N       int   `json:"n"`
	ErrSet  []int `json:"error_items"`
	Perturb int64 `json:"perturbation_seed"`
	Mode    int   `json:"mode"` // 0 none, 1 random yields/sleeps, 2 stall reducer at select, 3 stall workers before send, 4 stall caller
	// Shared: every failing item returns one and the same *gqlerrors.Error
	// (a cached sentinel, as a queryer or middleware may keep one)
	Shared bool `json:"shared_error_object,omitempty"`
}

type itemErr struct{ x int }

func (e itemErr) Error() string { return "item-" + strconv.Itoa(e.x) }

type c20Obs struct {
	Trace   []string
	Acc     []int
	Errs    []int
	Failure string
}

// runAMRTraced runs the real helper once, recording the hook events of that call.
func runAMRTraced(c c20Case) c20Obs {
	var mu sync.Mutex
	var trace []string
	var inst any
	prng := rand.New(rand.NewSource(c.Perturb))
	isErr := map[int]bool{}
	for _, e := range c.ErrSet {
		isErr[e] = true
	}
	returned := int32(0)
	sentinel := &gqlerrors.Error{Message: "item-shared"}
	var failure atomic.Value
	fail := func(s string) { failure.CompareAndSwap(nil, s) }

	common.SetVerifHook(func(point string, args ...any) {
		if !strings.HasPrefix(point, "amr.") {
			return
		}
		mu.Lock()
		if point == "amr.c.start" && inst == nil {
			inst = args[0]
		}
		if inst == nil || args[0] != inst {
			mu.Unlock()
			return
		}
		var lab string
		switch point {
		case "amr.c.start":
			lab = ""
		case "amr.w.start":
			lab = fmt.Sprintf("LWStart %d", args[1].(int))
		case "amr.w.mapped":
			lab = fmt.Sprintf("LWMapped %d %v", args[1].(int), args[2].(bool))
		case "amr.w.exit":
			lab = fmt.Sprintf("LWExit %d", args[1].(int))
		case "amr.r.select":
			lab = "LSelect"
		case "amr.r.recvres":
			lab = fmt.Sprintf("LRecvRes %d", args[1].(int))
		case "amr.r.reduced":
			lab = "LReduced"
		case "amr.r.recverr":
			if ie, ok := args[1].(itemErr); ok {
				lab = fmt.Sprintf("LRecvErr %d", ie.x)
			} else if ge, ok := args[1].(*gqlerrors.Error); ok && c.Shared && ge == sentinel {
				lab = "LRecvErr ?" // which item sent it is settled after the run (labelShared)
			} else {
				lab = "LRecvErr 999999" // an error no map call returned (e.g. nil)
				fail(fmt.Sprintf("the reducer consumed an error that no map call returned: %v", args[1]))
			}
		case "amr.r.erred":
			lab = "LErred"
		case "amr.r.exit":
			lab = "LRExit"
		case "amr.c.prewait":
			lab = "LPrewait"
		case "amr.c.waited":
			lab = "LWaited"
		case "amr.c.sentdone":
			lab = "LSentDone"
		}
		if lab != "" {
			trace = append(trace, lab)
		}
		// perturbation
		var d time.Duration
		yield := false
		switch c.Mode {
		case 1:
			switch prng.Intn(4) {
			case 0:
				yield = true
			case 1:
				d = time.Duration(prng.Intn(60)) * time.Microsecond
			}
		case 2:
			if point == "amr.r.select" || point == "amr.r.reduced" || point == "amr.r.erred" {
				d = time.Duration(50+prng.Intn(300)) * time.Microsecond
			}
		case 3:
			if point == "amr.w.mapped" || point == "amr.w.start" {
				d = time.Duration(prng.Intn(200)) * time.Microsecond
			}
		case 4:
			if point == "amr.c.prewait" || point == "amr.c.waited" {
				d = time.Duration(50+prng.Intn(300)) * time.Microsecond
			}
		}
		mu.Unlock()
		if yield {
			runtime.Gosched()
		}
		if d > 0 {
			time.Sleep(d)
		}
	})
	defer common.SetVerifHook(nil)

	items := make([]int, c.N)
	for i := range items {
		items[i] = i
	}
	mapCount := make([]int32, c.N)
	var inReduce, reduceCount int32
	base := runtime.NumGoroutine()
	acc, errs := common.AsyncMapReduce(items, []int{},
		func(x int) (int, error) {
			atomic.AddInt32(&mapCount[x], 1)
			if atomic.LoadInt32(&returned) == 1 {
				fail("mapFunc running after AsyncMapReduce returned")
			}
			if isErr[x] {
				if c.Shared {
					return 0, sentinel
				}
				return 0, itemErr{x}
			}
			return x, nil
		},
		func(a []int, v int) []int {
			if atomic.AddInt32(&inReduce, 1) != 1 {
				fail("reduceFunc applied concurrently with itself")
			}
			if atomic.LoadInt32(&returned) == 1 {
				fail(fmt.Sprintf("reduceFunc applied (to %d) after AsyncMapReduce returned", v))
			}
			atomic.AddInt32(&reduceCount, 1)
			a = append(a, v)
			atomic.AddInt32(&inReduce, -1)
			return a
		})
	atomic.StoreInt32(&returned, 1)
	o := c20Obs{Acc: append([]int{}, acc...)}
	for i, mc := range mapCount {
		if mc != 1 {
			fail(fmt.Sprintf("mapFunc applied %d times to item %d by the time the helper returned", mc, i))
		}
	}
	nOK := c.N - len(isErr)
	if int(atomic.LoadInt32(&reduceCount)) != nOK {
		fail(fmt.Sprintf("reduceFunc applied %d times for %d successful results by the time the helper returned", reduceCount, nOK))
	}
	mu.Lock()
	if c.Shared {
		trace = labelShared(trace)
	}
	mu.Unlock()
	if c.Shared {
		// the errors carry no item number: they are the items the reducer
		// received, in that order, as far as the returned list goes
		var recv []int
		for _, l := range trace {
			if strings.HasPrefix(l, "LRecvErr ") {
				x, _ := strconv.Atoi(strings.TrimPrefix(l, "LRecvErr "))
				recv = append(recv, x)
			}
		}
		for i, e := range errs {
			if e.Message != "item-shared" || i >= len(recv) {
				o.Errs = append(o.Errs, 999999)
			} else {
				o.Errs = append(o.Errs, recv[i])
			}
		}
		if len(errs) != len(c.ErrSet) {
			fail(fmt.Sprintf("%d item(s) failed (all with one shared error object) but %d error(s) were returned", len(c.ErrSet), len(errs)))
		}
	} else {
		for _, e := range errs {
			x, err := strconv.Atoi(strings.TrimPrefix(e.Message, "item-"))
			if err != nil {
				x = 999999
			}
			o.Errs = append(o.Errs, x)
		}
	}
	// the property, directly: acc is a permutation of the successes, errs of the failures
	sa := append([]int{}, o.Acc...)
	sort.Ints(sa)
	k := 0
	for i := 0; i < c.N; i++ {
		if !isErr[i] {
			if k >= len(sa) || sa[k] != i {
				fail(fmt.Sprintf("reduced values %v are not exactly the successful results", o.Acc))
				break
			}
			k++
		}
	}
	if k != len(sa) {
		fail(fmt.Sprintf("reduced values %v are not exactly the successful results", o.Acc))
	}
	se := append([]int{}, o.Errs...)
	sort.Ints(se)
	want := append([]int{}, c.ErrSet...)
	sort.Ints(want)
	if fmt.Sprint(se) != fmt.Sprint(want) {
		fail(fmt.Sprintf("returned errors %v, failing items %v", se, want))
	}
	// no goroutine left behind
	deadline := time.Now().Add(2 * time.Second)
	for runtime.NumGoroutine() > base && time.Now().Before(deadline) {
		time.Sleep(50 * time.Microsecond)
	}
	if g := runtime.NumGoroutine(); g > base {
		fail(fmt.Sprintf("%d goroutine(s) left behind 2s after return", g-base))
	}
	time.Sleep(20 * time.Microsecond)
	mu.Lock()
	o.Trace = append([]string{}, trace...)
	mu.Unlock()
	if f, ok := failure.Load().(string); ok {
		o.Failure = f
	}
	return o
}

// labelShared names the sender of each "LRecvErr ?": the failing items are
// interchangeable, so any assignment in which x is received after it was mapped
// is the same run up to renaming. The worker's exit point may be logged before
// the reducer's receive point (the rendezvous precedes both), so the item that
// exits earliest is taken first.
func labelShared(trace []string) []string {
	exitAt := map[int]int{}
	for i, l := range trace {
		if strings.HasPrefix(l, "LWExit ") {
			x, _ := strconv.Atoi(strings.TrimPrefix(l, "LWExit "))
			exitAt[x] = i
		}
	}
	out := append([]string{}, trace...)
	mapped := map[int]bool{}
	used := map[int]bool{}
	for i, l := range trace {
		if strings.HasPrefix(l, "LWMapped ") {
			var x int
			var ok bool
			fmt.Sscanf(strings.TrimPrefix(l, "LWMapped "), "%d %t", &x, &ok)
			if ok { // the flag says "the map call failed"
				mapped[x] = true
			}
		}
		if l == "LRecvErr ?" {
			best, bestExit := -1, 0
			for x := range mapped {
				if used[x] {
					continue
				}
				e, has := exitAt[x]
				if !has {
					e = len(trace) + x
				}
				if best < 0 || e < bestExit || (e == bestExit && x < best) {
					best, bestExit = x, e
				}
			}
			if best < 0 {
				out[i] = "LRecvErr 999999"
			} else {
				used[best] = true
				out[i] = fmt.Sprintf("LRecvErr %d", best)
			}
		}
	}
	return out
}

func driveC20(seed int64, tier string, out string, replay string) {
	rng := hx.NewRand(seed)
	obs := hx.NewObs("C20", seed, tier)
	var cases []c20Case
	if replay != "" {
		cases = loadReplayCases[c20Case](replay)
	} else {
		runs := 400
		maxN := 10
		if tier == "thorough" {
			runs, maxN = 6000, 40
		}
		// all error patterns for n <= 3 under every perturbation mode, then random
		for n := 0; n <= 3; n++ {
			for pat := 0; pat < 1<<n; pat++ {
				for mode := 0; mode <= 4; mode++ {
					c := c20Case{N: n, Mode: mode, Perturb: rng.Int63()}
					for i := 0; i < n; i++ {
						if pat&(1<<i) != 0 {
							c.ErrSet = append(c.ErrSet, i)
						}
					}
					cases = append(cases, c)
				}
			}
		}
		// wide fan-outs (a list of many entities at one level)
		for _, n := range []int{64, 65, 101, 130} {
			c := c20Case{N: n, Mode: 0, Perturb: rng.Int63()}
			for i := 0; i < n; i++ {
				if i%17 == 3 {
					c.ErrSet = append(c.ErrSet, i)
				}
			}
			cases = append(cases, c)
		}
		for len(cases) < runs {
			n := rng.Intn(maxN + 1)
			c := c20Case{N: n, Mode: rng.Intn(5), Perturb: rng.Int63(), Shared: len(cases)%5 == 4}
			p := rng.Intn(4)
			for i := 0; i < n; i++ {
				if p > 0 && rng.Intn(p+1) == 0 {
					c.ErrSet = append(c.ErrSet, i)
				}
			}
			cases = append(cases, c)
		}
	}
	var coq []string
	distinct := map[string]bool{}
	shard := 0
	flush := func() {}
	_ = shard
	_ = flush
	for i, c := range cases {
		if c.ErrSet == nil {
			c.ErrSet = []int{}
		}
		hx.Current(out, i, c)
		o := runAMRTraced(c)
		if o.Failure != "" {
			obs.Fail(i, o.Failure, c)
		}
		coq = append(coq, fmt.Sprintf("mkCase %d %s [%s] %s %s", c.N, hx.CoqNatList(c.ErrSet), strings.Join(o.Trace, "; "), hx.CoqNatList(o.Acc), hx.CoqNatList(o.Errs)))
		obs.CaseInputs = append(obs.CaseInputs, c)
		if c.N >= 2 {
			distinct[strings.Join(o.Trace, ";")] = true
		}
		obs.Count(fmt.Sprintf("mode_%d", c.Mode))
		obs.Count(fmt.Sprintf("n_%02d", c.N))
		if len(c.ErrSet) > 0 {
			obs.Count("with_errors")
		}
		if c.Shared && len(c.ErrSet) > 1 {
			obs.Count("several_items_fail_with_one_error_object")
		}
		if i%61 == 7 && len(obs.Samples) < 5 {
			obs.Samples = append(obs.Samples, map[string]interface{}{"case": c, "trace": o.Trace, "acc": o.Acc, "errs": o.Errs})
		}
	}
	obs.Evaluations = len(cases)
	obs.DistinctNontrivial = len(distinct)
	obs.Rule = "all error patterns for n<=3 under 5 perturbation modes, then random n/error patterns/perturbations; every run records the hook-event trace of the real AsyncMapReduce; non-trivial = n>=2, distinct by the full interleaving (trace)"
	hx.WriteCases(out, "From Pebbles Require Import Conc.AMR Corr.C20.\nFrom Coq Require Import List. Import ListNotations.\n", "c20case", coq, "mismatches")
	obs.Write(out)
}
