package main

import (
	"bytes"
	"encoding/json"
	"errors"
	"fmt"
	"io"
	"mime"
	"mime/multipart"
	"net/http"
	"reflect"
	"runtime"
	"sort"
	"strconv"
	"strings"
	"sync"
	"time"

	"github.com/buildbuildio/pebbles/common"
	"github.com/buildbuildio/pebbles/queryer"
	"github.com/buildbuildio/pebbles/requests"

	"verif/harness/hx"
)

func init() { drivers["C11"] = driveC11 }

type c11Case struct {
	N     int   `json:"N"`
	M     int   `json:"m"`
	Pi    []int `json:"scripted_order"` // scripted completion order of the chunk goroutines
	Files []int `json:"file_requests"`  // request indices that carry an upload
	Fail  []int `json:"failing_ids"`    // an HTTP call containing one of these request ids fails
	Kind  int   `json:"fail_kind"`      // 0 transport error, 1 status 500, 2 GraphQL errors in answer, 3 an errors list holding only null
	// Overlap: no scripted order — every call is answered at once and closing a response body takes a moment, so
	// that calls overlap between reading and decoding their answers; SingleP runs the case on one processor
	Overlap bool `json:"overlapping_calls,omitempty"`
	SingleP bool `json:"single_processor,omitempty"`
	// SameAs[i] = j (j < i): position i of the input list holds the very same *requests.Request as position j
	// (one request object listed twice); the answer at i is then the answer to that request
	SameAs map[int]int `json:"same_request_object_as,omitempty"`
}

// slowCloseBody: a response body whose Close yields the processor for a moment
type slowCloseBody struct {
	io.Reader
	d time.Duration
}

func (b slowCloseBody) Close() error {
	runtime.Gosched()
	time.Sleep(b.d)
	return nil
}

type c11Obs struct {
	Result   []int   // -1 for a nil map, else the echoed id
	Err      bool    // Query returned an error
	NilRes   bool    // returned slice was nil
	Calls    [][]int // ids per HTTP call, in arrival order
	Order    []int   // observed completion order (chunk indices as seen by the reducer), chunks that failed excluded
	Scripted bool    // the observed order equals the scripted one
}

// gateRT is the downstream: echoes request identities and releases chunks in a scripted order.
type gateRT struct {
	mu      sync.Mutex
	cond    *sync.Cond
	c       c11Case
	calls   [][]int
	done    map[int]bool // chunk index -> completed (reduced or errored)
	chunked bool
}

func (g *gateRT) chunkOf(id int) int {
	if !g.chunked {
		return 0
	}
	return id / g.c.M
}

func (g *gateRT) mayRun(chunk int) bool {
	if !g.chunked || g.c.Overlap {
		return true
	}
	for _, c := range g.c.Pi {
		if c == chunk {
			return true
		}
		// empty chunks make no HTTP call and complete whenever they like
		if c*g.c.M >= g.c.N {
			continue
		}
		if !g.done[c] {
			return false
		}
	}
	return true
}

func idOfQuery(q string) int {
	n, err := strconv.Atoi(strings.TrimPrefix(q, "q"))
	if err != nil {
		return -1
	}
	return n
}

func (g *gateRT) RoundTrip(r *http.Request) (*http.Response, error) {
	body, _ := io.ReadAll(r.Body)
	var ids []int
	single := false
	mt, params, _ := mime.ParseMediaType(r.Header.Get("Content-Type"))
	if mt == "multipart/form-data" {
		mr := multipart.NewReader(bytes.NewReader(body), params["boundary"])
		form, err := mr.ReadForm(1 << 20)
		if err != nil {
			return nil, err
		}
		var rq requests.Request
		json.Unmarshal([]byte(form.Value["operations"][0]), &rq)
		ids = []int{idOfQuery(rq.Query)}
		single = true
	} else {
		var rqs []requests.Request
		if err := json.Unmarshal(body, &rqs); err != nil {
			return nil, err
		}
		for _, rq := range rqs {
			ids = append(ids, idOfQuery(rq.Query))
		}
	}
	chunk := g.chunkOf(ids[0])
	g.mu.Lock()
	g.calls = append(g.calls, ids)
	deadline := time.Now().Add(2 * time.Second)
	for !g.mayRun(chunk) && time.Now().Before(deadline) {
		g.cond.Wait()
	}
	fail := false
	for _, id := range ids {
		for _, f := range g.c.Fail {
			if f == id {
				fail = true
			}
		}
	}
	g.mu.Unlock()
	mk := func(status int, b []byte) *http.Response {
		if g.c.Overlap {
			return &http.Response{StatusCode: status, Body: slowCloseBody{bytes.NewReader(b), time.Duration(100+50*chunk) * time.Microsecond}, Header: http.Header{}}
		}
		return &http.Response{StatusCode: status, Body: io.NopCloser(bytes.NewReader(b)), Header: http.Header{}}
	}
	if fail {
		switch g.c.Kind {
		case 0:
			return nil, errors.New("transport down")
		case 1:
			return mk(500, []byte("boom")), nil
		}
	}
	type ans struct {
		Data   map[string]interface{}   `json:"data"`
		Errors []map[string]interface{} `json:"errors,omitempty"`
	}
	out := make([]ans, len(ids))
	for i, id := range ids {
		out[i] = ans{Data: map[string]interface{}{"echo": id}}
		if fail {
			out[i].Errors = []map[string]interface{}{{"message": "svc error"}}
			if g.c.Kind == 3 {
				out[i].Errors = []map[string]interface{}{nil}
				out[i].Data = nil
			}
		}
	}
	var b []byte
	if single {
		b, _ = json.Marshal(out[0])
	} else {
		b, _ = json.Marshal(out)
	}
	return mk(200, b), nil
}

type nopFile struct{ *strings.Reader }

func (nopFile) Close() error { return nil }

func runC11(c c11Case) c11Obs {
	if c.SingleP {
		defer runtime.GOMAXPROCS(runtime.GOMAXPROCS(1))
	}
	g := &gateRT{c: c, done: map[int]bool{}, chunked: c.N > c.M}
	g.cond = sync.NewCond(&g.mu)
	// waiting calls re-check their deadline even if no completion is ever reported (code under test that no
	// longer passes the hook points must make the case fail, not hang)
	stopTick := make(chan struct{})
	defer close(stopTick)
	go func() {
		t := time.NewTicker(50 * time.Millisecond)
		defer t.Stop()
		for {
			select {
			case <-stopTick:
				return
			case <-t.C:
				g.cond.Broadcast()
			}
		}
	}()
	var order []int
	nonEmptyErr := 0
	common.SetVerifHook(func(point string, args ...any) {
		switch point {
		case "amr.r.recvres":
			// *chunkResponse{Index, Response}
			v := reflect.ValueOf(args[1])
			if v.Kind() == reflect.Ptr && v.Elem().Kind() == reflect.Struct {
				if f := v.Elem().FieldByName("Index"); f.IsValid() {
					g.mu.Lock()
					order = append(order, int(f.Int()))
					g.mu.Unlock()
				}
			}
		case "amr.r.recverr":
			g.mu.Lock()
			nonEmptyErr++
			g.mu.Unlock()
		case "amr.r.select":
			// everything received so far has been reduced: mark completed and wake waiting calls
			g.mu.Lock()
			for _, i := range order {
				g.done[i] = true
			}
			if nonEmptyErr > 0 {
				// an errored chunk cannot be identified from the hook; release everybody
				for _, ci := range g.c.Pi {
					g.done[ci] = true
				}
			}
			g.cond.Broadcast()
			g.mu.Unlock()
		}
	})
	defer common.SetVerifHook(nil)

	q := queryer.NewMultiOpQueryer("http://svc.invalid/graphql", c.M).WithHTTPClient(&http.Client{Transport: g})
	inputs := make([]*requests.Request, c.N)
	isFile := map[int]bool{}
	for _, f := range c.Files {
		isFile[f] = true
	}
	for i := range inputs {
		if j, same := c.SameAs[i]; same && j < i {
			inputs[i] = inputs[j]
			continue
		}
		inputs[i] = &requests.Request{Query: "q" + strconv.Itoa(i)}
		if isFile[i] {
			inputs[i].Variables = map[string]interface{}{"f": &requests.Upload{File: nopFile{strings.NewReader("data" + strconv.Itoa(i))}, FileName: "f.txt"}}
		}
	}
	res, err := q.Query(inputs)
	o := c11Obs{Err: err != nil, NilRes: res == nil}
	for _, r := range res {
		if r == nil {
			o.Result = append(o.Result, -1)
			continue
		}
		switch v := r["echo"].(type) {
		case float64:
			o.Result = append(o.Result, int(v))
		default:
			o.Result = append(o.Result, -2)
		}
	}
	g.mu.Lock()
	o.Calls = g.calls
	o.Order = append([]int(nil), order...)
	g.mu.Unlock()
	if !g.chunked {
		o.Order = []int{0}
	}
	o.Scripted = reflect.DeepEqual(o.Order, c.Pi)
	return o
}

// the property itself, checked directly on what the implementation did
func oracleC11(c c11Case, o c11Obs) string {
	isFail := map[int]bool{}
	for _, f := range c.Fail {
		if f < c.N {
			isFail[f] = true
		}
	}
	if len(isFail) > 0 {
		if !o.Err {
			return fmt.Sprintf("a downstream call failed but Query returned no error (result %v)", o.Result)
		}
		if !o.NilRes {
			return fmt.Sprintf("a downstream call failed and Query returned partial results %v together with the error", o.Result)
		}
		return ""
	}
	if o.Err {
		return "no downstream call failed but Query returned an error"
	}
	if len(o.Result) != c.N {
		return fmt.Sprintf("%d results for %d requests", len(o.Result), c.N)
	}
	want := func(i int) int {
		for {
			j, same := c.SameAs[i]
			if !same || j >= i {
				return i
			}
			i = j
		}
	}
	for i, r := range o.Result {
		if r != want(i) {
			return fmt.Sprintf("result %d answers request %d, expected %d (results %v)", i, r, want(i), o.Result)
		}
	}
	if len(c.SameAs) > 0 {
		return ""
	}
	seen := map[int]int{}
	for _, call := range o.Calls {
		if len(call) > c.M {
			return fmt.Sprintf("one HTTP call carries %d requests, max batch size is %d", len(call), c.M)
		}
		for _, id := range call {
			seen[id]++
		}
	}
	for i := 0; i < c.N; i++ {
		if seen[i] != 1 {
			return fmt.Sprintf("request %d was sent in %d HTTP calls", i, seen[i])
		}
	}
	return ""
}

func canonCalls(calls [][]int) [][]int {
	cc := make([][]int, len(calls))
	copy(cc, calls)
	sort.Slice(cc, func(i, j int) bool {
		a, b := cc[i], cc[j]
		for k := 0; k < len(a) && k < len(b); k++ {
			if a[k] != b[k] {
				return a[k] < b[k]
			}
		}
		return len(a) < len(b)
	})
	return cc
}

func c11CoqCase(c c11Case, o c11Obs) string {
	res := "None"
	if !o.Err {
		items := make([]string, len(o.Result))
		for i, r := range o.Result {
			if r < 0 {
				items[i] = "None"
			} else {
				items[i] = fmt.Sprintf("Some %d", r)
			}
		}
		res = "(Some " + hx.CoqList(items) + ")"
	}
	calls := canonCalls(o.Calls)
	cs := make([]string, len(calls))
	for i, cl := range calls {
		cs[i] = hx.CoqNatList(cl)
	}
	order := o.Order
	if len(c.Fail) > 0 {
		order = c.Pi // completion order is irrelevant to the outcome when a call fails
	}
	return fmt.Sprintf("mkCase %d %d %s %s %s %s %s %s", c.N, c.M, hx.CoqNatList(order), hx.CoqNatList(c.Files),
		hx.CoqNatList(c.Fail), res, hx.CoqList(cs), hx.CoqBool(len(c.Fail) == 0))
}

func driveC11(seed int64, tier string, out string, replay string) {
	rng := hx.NewRand(seed)
	obs := hx.NewObs("C11", seed, tier)
	var cases []c11Case
	if replay != "" {
		cases = loadReplayCases[c11Case](replay)
	} else {
		maxN, maxM, maxPerm := 10, 4, 4
		if tier == "thorough" {
			maxN, maxM, maxPerm = 24, 8, 5
		}
		for n := 0; n <= maxN; n++ {
			for m := 1; m <= maxM; m++ {
				if n <= m {
					cases = append(cases, c11Case{N: n, M: m, Pi: []int{0}})
					continue
				}
				k := n/m + 1
				if k <= maxPerm {
					for _, p := range hx.Permutations(k) {
						cases = append(cases, c11Case{N: n, M: m, Pi: p})
					}
				} else {
					for j := 0; j < 4; j++ {
						cases = append(cases, c11Case{N: n, M: m, Pi: rng.Perm(k)})
					}
				}
			}
		}
		// overlapping calls (answers read, bodies closed and decoded while other calls are in flight)
		for n := 2; n <= maxN; n += 2 {
			for m := 1; m <= 3 && m < n; m++ {
				for rep := 0; rep < 3; rep++ {
					cases = append(cases, c11Case{N: n, M: m, Pi: []int{0}, Overlap: true, SingleP: rep != 2})
				}
			}
		}
		// one request object listed at several positions
		for j := 0; j < 40; j++ {
			n := 3 + rng.Intn(maxN)
			m := 1 + rng.Intn(3)
			c := c11Case{N: n, M: m, Pi: []int{0}, Overlap: true, SameAs: map[int]int{}}
			for k := 0; k < 1+rng.Intn(2); k++ {
				i := 1 + rng.Intn(n-1)
				c.SameAs[i] = rng.Intn(i)
			}
			cases = append(cases, c)
		}
		// uploads and failing calls mixed in
		extra := 150
		if tier == "thorough" {
			extra = 1500
		}
		for j := 0; j < extra; j++ {
			n := rng.Intn(maxN + 3)
			m := 1 + rng.Intn(maxM+1)
			c := c11Case{N: n, M: m, Pi: []int{0}}
			if n > m {
				c.Pi = rng.Perm(n/m + 1)
			}
			for i := 0; i < n; i++ {
				if rng.Intn(5) == 0 {
					c.Files = append(c.Files, i)
				}
			}
			if n > 0 && rng.Intn(3) == 0 {
				c.Fail = []int{rng.Intn(n)}
				if rng.Intn(4) == 0 {
					c.Fail = append(c.Fail, rng.Intn(n))
				}
				c.Kind = rng.Intn(4)
			}
			cases = append(cases, c)
		}
	}
	var coq []string
	distinct := map[string]bool{}
	scripted := 0
	for i, c := range cases {
		o := runC11(c)
		if c.Files == nil {
			c.Files = []int{}
		}
		if c.Fail == nil {
			c.Fail = []int{}
		}
		if what := oracleC11(c, o); what != "" {
			obs.Fail(i, what, c)
		}
		if len(c.SameAs) > 0 {
			// decided by the oracle alone: the model speaks about lists of distinct requests
			obs.Count("one_request_object_at_several_positions")
			coq = append(coq, c11CoqCase(c11Case{N: 0, M: 1, Pi: []int{0}}, c11Obs{Order: []int{0}}))
		} else {
			coq = append(coq, c11CoqCase(c, o))
		}
		obs.CaseInputs = append(obs.CaseInputs, c)
		if c.N > c.M {
			distinct[fmt.Sprint(c.N, c.M, o.Order, c.Files, c.Fail)] = true
			obs.Count("chunked")
		} else {
			obs.Count("single_call")
		}
		if o.Scripted {
			scripted++
		}
		if len(c.Files) > 0 {
			obs.Count("with_uploads")
		}
		if len(c.Fail) > 0 {
			obs.Count(fmt.Sprintf("failing_kind_%d", c.Kind))
		}
		if i%97 == 5 && len(obs.Samples) < 6 {
			obs.Samples = append(obs.Samples, map[string]interface{}{"case": c, "observed_order": o.Order, "calls": o.Calls, "result": o.Result, "err": o.Err})
		}
	}
	obs.Evaluations = len(cases)
	obs.DistinctNontrivial = len(distinct)
	obs.Histogram["scripted_order_achieved"] = scripted
	obs.Rule = "exhaustive N x m x all completion orders of <=4 chunks (sampled orders beyond), plus random cases with uploads and failing calls; non-trivial = chunked (N > m), distinct by (N, m, observed completion order, uploads, failing ids)"
	obs.Exhaustive = false
	hx.WriteCases(out, "From Pebbles Require Import Corr.C11.\nFrom Coq Require Import List. Import ListNotations.\n", "c11case", coq, "mismatches")
	obs.Write(out)
}
