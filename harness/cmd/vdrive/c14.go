package main

import (
	"fmt"
	"regexp"
	"strings"
	"sync"
	"time"

	pebbles "github.com/buildbuildio/pebbles"
	"github.com/buildbuildio/pebbles/format"
	"github.com/buildbuildio/pebbles/merger"
	"github.com/buildbuildio/pebbles/planner"
	"github.com/buildbuildio/pebbles/queryer"

	"verif/harness/fake"
	"verif/harness/gen"
	"verif/harness/hx"
)

func init() { drivers["C14"] = driveC14 }

type c14Event struct {
	Op     gen.GenOp `json:"operation"`
	GapBig bool      `json:"gap_100ms_before"`
}
type c14Case struct {
	WorldSeed int64      `json:"world_seed"`
	Hand      bool       `json:"hand_world"`
	TTL       string     `json:"ttl"` // "0", "40ms", "1h"
	History   []c14Event `json:"history"`
	Parallel  int        `json:"concurrent_copies"`
	Domain    string     `json:"world_domain,omitempty"` // "" = inD01; "inputs" = string fields taking filter: [FilterIn!]
}

type countingPlanner struct {
	mu    sync.Mutex
	inner planner.Planner
	calls int
}

func (c *countingPlanner) Plan(ctx *planner.PlanningContext) (*planner.QueryPlan, error) {
	c.mu.Lock()
	c.calls++
	c.mu.Unlock()
	return c.inner.Plan(ctx)
}

func twinGateways(w *gen.World, ttl time.Duration) (plain, cached *Rig, cp *countingPlanner, err error) {
	plain, err = NewRig(w, RigConfig{})
	if err != nil {
		return
	}
	cached, err = NewRig(w, RigConfig{})
	if err != nil {
		return
	}
	var sp planner.SequentialPlanner
	cp = &countingPlanner{inner: sp}
	gwIn, _ := loadSchemas(cached.SDLs)
	gw, e := pebbles.NewGateway(cached.URLs,
		pebbles.WithRemoteSchemaIntrospector(&mockIntrospector{res: gwIn}),
		pebbles.WithMerger(merger.ExtendMergerFunc(nil)),
		pebbles.WithPlanner(planner.NewCachedPlanner(ttl).WithPlannerExecutor(cp)),
		pebbles.WithQueryerFactory(func(ctx *planner.PlanningContext, url string) queryer.Queryer {
			if s, ok := cached.Services[url]; ok {
				return s
			}
			return nopQueryer{url}
		}))
	if e != nil {
		err = e
		return
	}
	cached.GW = gw
	return
}

// cacheKeyOf reproduces the inputs of CachedPlanner.hash for numbering keys
func cacheKeyOf(r *Rig, op gen.GenOp) string {
	o := selectedOp(r.Merged, op)
	if o == nil {
		return "invalid:" + op.Query
	}
	return string(o.Operation) + " " + o.Name + " " + format.NewBufferedFormatter().FormatSelectionSet(o.SelectionSet)
}

// near-collisions: the same selection under a different type / name / variable definitions / fragment body / values
func variants(r *Rig, op gen.GenOp, rng interface{ Intn(int) int }) []gen.GenOp {
	out := []gen.GenOp{op}
	q := op.Query
	if strings.HasPrefix(q, "query") {
		named := strings.Replace(stripQueryName(q), "query", "query Renamed", 1)
		out = append(out, gen.GenOp{Query: named, Variables: op.Variables, Kind: "renamed"})
	}
	if len(op.Variables) > 0 {
		v2 := map[string]interface{}{}
		for k, v := range op.Variables {
			switch x := v.(type) {
			case int:
				v2[k] = x + 1
			case float64:
				v2[k] = x + 1
			case string:
				v2[k] = x + "'"
			default:
				v2[k] = v
			}
		}
		out = append(out, gen.GenOp{Query: q, Variables: v2, OperationName: op.OperationName, Kind: "other_values"})
	}
	if i := strings.Index(q, "fragment F1 on "); i >= 0 {
		// same spread name, different body: drop the last field of the fragment body if it has several
		body := q[i:]
		if j := strings.LastIndex(body, " }"); j > 0 {
			inner := body[:j]
			if k := strings.LastIndex(inner, " "); k > strings.Index(inner, "{")+2 && !strings.ContainsAny(inner[k:], "{}()") {
				out = append(out, gen.GenOp{Query: q[:i] + inner[:k] + body[j:], Variables: op.Variables, OperationName: op.OperationName, Kind: "other_fragment_body"})
			}
		}
	}
	if v, ok := otherLiteral(q); ok {
		o := gen.GenOp{Query: v, Variables: op.Variables, OperationName: op.OperationName, Kind: "other_literal", Of: q}
		if selectedOp(r.Merged, o) != nil {
			out = append(out, o)
		}
	}
	return out
}

func domainOr(d string) string {
	if d == "" {
		return "inD01"
	}
	return d
}

var litStrRe = regexp.MustCompile(`"x\d"`)
var litIntRe = regexp.MustCompile(`\b\d\b`)

// otherLiteral changes one scalar inside the first list / input-object literal given to a `filter:` argument
func otherLiteral(q string) (string, bool) {
	i := strings.Index(q, "filter: [")
	if i < 0 {
		return "", false
	}
	start := i + len("filter: ")
	depth, end := 0, -1
	for j := start; j < len(q); j++ {
		if q[j] == '[' || q[j] == '{' {
			depth++
		}
		if q[j] == ']' || q[j] == '}' {
			depth--
			if depth == 0 {
				end = j + 1
				break
			}
		}
	}
	if end < 0 {
		return "", false
	}
	lit := q[start:end]
	if m := litStrRe.FindStringIndex(lit); m != nil {
		return q[:start] + lit[:m[0]] + `"zz"` + lit[m[1]:] + q[end:], true
	}
	if m := litIntRe.FindStringIndex(lit); m != nil {
		return q[:start] + lit[:m[0]] + "7" + lit[m[1]:] + q[end:], true
	}
	if strings.Contains(lit, "true") {
		return q[:start] + strings.Replace(lit, "true", "false", 1) + q[end:], true
	}
	if strings.Contains(lit, "false") {
		return q[:start] + strings.Replace(lit, "false", "true", 1) + q[end:], true
	}
	return "", false
}

var rootSelRe = regexp.MustCompile(`q\d_\d(\([^)]*\))? \{ `)

func stripQueryName(q string) string {
	q = strings.TrimSpace(q)
	rest := strings.TrimPrefix(q, "query")
	i := strings.IndexAny(rest, "{(")
	if i < 0 {
		return q
	}
	return "query " + rest[i:]
}

func driveC14(seed int64, tier, out, replay string) {
	rng := hx.NewRand(seed)
	obs := hx.NewObs("C14", seed, tier)
	nHist := 36
	if tier == "thorough" {
		nHist = 400
	}
	var cases []c14Case
	if replay != "" {
		cases = loadReplayCases[c14Case](replay)
	} else {
		for i := 0; i < nHist; i++ {
			c := c14Case{WorldSeed: rng.Int63(), TTL: []string{"0", "40ms", "1h"}[i%3], Hand: i%4 == 3}
			if i%6 == 5 {
				c.Parallel = 8
			}
			cases = append(cases, c)
		}
		// worlds whose fields take list / input-object literals (own stream: the histories above stay as they were)
		irng := hx.NewRand(seed + 7777)
		for i := 0; i < nHist/4; i++ {
			cases = append(cases, c14Case{WorldSeed: irng.Int63(), TTL: []string{"1h", "40ms", "1h", "0"}[i%4], Domain: "inputs"})
		}
	}
	var coq []string
	distinct := map[string]bool{}
	for idx, c := range cases {
		var w *gen.World
		if c.Hand {
			w = handWorld()
		} else {
			w = worldFor(c.WorldSeed, domainOr(c.Domain))
		}
		ttl, _ := time.ParseDuration(c.TTL)
		if c.TTL == "0" {
			ttl = 0
		}
		plain, cached, cp, err := twinGateways(w, ttl)
		if err != nil {
			continue
		}
		if c.History == nil {
			var pool []gen.GenOp
			if c.Hand {
				pool = []gen.GenOp{{Query: "query { x }"}, {Query: "mutation { x }"}, {Query: "query Named { x }"}, {Query: "{ me { name phone } }"}, {Query: "{ me { name } }"},
					{Query: "query($a: Int) { me { phone(a: $a) } }", Variables: map[string]interface{}{"a": 1}}, {Query: "query($a: Int) { me { phone(a: $a) } }", Variables: map[string]interface{}{"a": 2}},
					{Query: "query A { x } query B { me { name phone } }", OperationName: "A", Kind: "multi_operation"}, {Query: "query A { x } query B { me { name phone } }", OperationName: "B", Kind: "multi_operation"},
					{Query: "{ me { id name phone } }", Kind: "explicit_id"}, {Query: "{ humans { phone } }"}, {Query: "{ humans { id phone } }", Kind: "explicit_id"},
					{Query: "{ me { ...F1 } } fragment F1 on Human { name phone }"}, {Query: "{ me { ...F1 } } fragment F1 on Human { name }"}, {Query: "mutation Named { x }"}}
			} else {
				orng := hx.NewRand(c.WorldSeed + 1)
				var plainOps []gen.GenOp
				nOps := 4
				if c.Domain == "inputs" {
					nOps = 10
				}
				for k := 0; k < nOps; k++ {
					op := gen.Operation(orng, plain.Merged, opOptionsFor(domainOr(c.Domain), w))
					pool = append(pool, variants(plain, op, orng)...)
					if strings.HasPrefix(op.Query, "query") && len(op.Variables) == 0 && !strings.Contains(op.Query, "fragment") {
						plainOps = append(plainOps, op)
					}
					// the same operation with the helper id written out by the client at the first Node-typed root field
					if m := rootSelRe.FindStringIndex(op.Query); m != nil && !strings.HasPrefix(op.Query[m[1]:], "id ") {
						v := gen.GenOp{Query: op.Query[:m[1]] + "id " + op.Query[m[1]:], Variables: op.Variables, OperationName: op.OperationName, Kind: "explicit_id"}
						if selectedOp(plain.Merged, v) != nil {
							pool = append(pool, v)
						}
					}
				}
				if len(plainOps) >= 2 {
					doc := strings.Replace(stripQueryName(plainOps[0].Query), "query", "query DocA", 1) + " " + strings.Replace(stripQueryName(plainOps[1].Query), "query", "query DocB", 1)
					pool = append(pool, gen.GenOp{Query: doc, OperationName: "DocA", Kind: "multi_operation"}, gen.GenOp{Query: doc, OperationName: "DocB", Kind: "multi_operation"})
				}
			}
			// introspection answered locally from the (possibly cached) plan: the same document with other variable values
			tq := "query T($n: String!, $d: Boolean) { __type(name: $n) { name kind fields(includeDeprecated: $d) { name } } }"
			for _, n := range []string{"Query", "Node", "NoSuchType", "Mutation"} {
				pool = append(pool, gen.GenOp{Query: tq, OperationName: "T", Variables: map[string]interface{}{"n": n, "d": len(n)%2 == 0}, Kind: "introspection_by_variable"})
			}
			// ordered pairs that need each other: an operation, then the text its sanitised form would have
			var pairs [][2]gen.GenOp
			for _, a := range pool {
				for _, b := range pool {
					// the same text up to one value inside a list / input-object literal
					if b.Kind == "other_literal" && b.Of == a.Query && a.Kind != "other_literal" {
						pairs = append(pairs, [2]gen.GenOp{a, b})
					}
					if b.Kind == "explicit_id" && strings.Replace(b.Query, "id ", "", 1) == a.Query {
						pairs = append(pairs, [2]gen.GenOp{a, b})
					}
					// two operations of one document: the same text, told apart by operationName only
					if a.Kind == "multi_operation" && b.Kind == "multi_operation" && a.Query == b.Query && a.OperationName != b.OperationName {
						pairs = append(pairs, [2]gen.GenOp{a, b})
					}
				}
			}
			n := 6 + rng.Intn(10)
			big := 0
			if len(pairs) > 0 {
				// every history begins with one such pair, each pair in turn over the cases
				p := pairs[idx%len(pairs)]
				c.History = append(c.History, c14Event{Op: p[0]}, c14Event{Op: p[1]})
			}
			for k := 0; k < n; k++ {
				e := c14Event{Op: pool[rng.Intn(len(pool))]}
				if c.TTL == "40ms" && big < 3 && rng.Intn(4) == 0 {
					e.GapBig = true
					big++
				}
				c.History = append(c.History, e)
			}
		}
		hx.Current(out, idx, c)
		what := ""
		keyIDs := map[string]int{}
		var hist []string
		var missObs []string
		// time is measured (milliseconds since the history began, read just before the request is sent); an hour is
		// represented by a TTL longer than any history
		ttlTicks := map[string]int{"0": 0, "40ms": 40, "1h": 20000}[c.TTL]
		began := time.Now()
		now := 0
		inconclusive := false
		lastSeen := map[string][]int{}
		for k, e := range c.History {
			if e.GapBig {
				time.Sleep(100 * time.Millisecond)
			}
			pr, _ := plain.Do(e.Op)
			if t := int(time.Since(began).Milliseconds()); t > now {
				now = t
			} else {
				now++
			}
			before := cp.calls
			var cr map[string]interface{}
			if c.Parallel > 1 {
				var wg sync.WaitGroup
				res := make([]map[string]interface{}, c.Parallel)
				for j := 0; j < c.Parallel; j++ {
					wg.Add(1)
					go func(j int) {
						defer wg.Done()
						res[j], _ = cached.Do(e.Op)
					}(j)
				}
				wg.Wait()
				cr = res[0]
				for j := 1; j < c.Parallel; j++ {
					if fake.CanonJSON(res[j]) != fake.CanonJSON(res[0]) && what == "" {
						what = fmt.Sprintf("request %d: concurrent copies of one request got different answers from the caching planner", k)
					}
				}
			} else {
				cr, _ = cached.Do(e.Op)
			}
			miss := cp.calls > before
			if fake.CanonJSON(pr) != fake.CanonJSON(cr) && what == "" {
				what = fmt.Sprintf("request %d of the history (%s): caching planner answered %s, plain planner %s", k, shortStr(e.Op.Query, 120), shortStr(fake.CanonJSON(cr), 250), shortStr(fake.CanonJSON(pr), 250))
			}
			ks := cacheKeyOf(plain, e.Op)
			if strings.HasPrefix(ks, "invalid:") {
				continue // never reaches the planner
			}
			if _, ok := keyIDs[ks]; !ok {
				keyIDs[ks] = len(keyIDs)
			}
			for _, t0 := range lastSeen[ks] {
				// an entry about as old as the TTL: the harness clock and the planner's clock may disagree on which side
				if age := now - t0; c.TTL == "40ms" && age > 25 && age < 55 {
					inconclusive = true
				}
			}
			lastSeen[ks] = append(lastSeen[ks], now)
			hist = append(hist, fmt.Sprintf("(%d, %d)", keyIDs[ks], now))
			missObs = append(missObs, hx.CoqBool(miss))
		}
		if what != "" {
			obs.Fail(idx, what, c)
		}
		if c.Parallel > 1 || inconclusive {
			// with concurrent copies the miss count per request is schedule dependent: only the answers are compared;
			// likewise when an entry's age was within 15 ms of the TTL at a lookup
			coq = append(coq, "mkCase 0 [] []")
			if inconclusive {
				obs.Count("timing_inconclusive")
			}
		} else {
			coq = append(coq, fmt.Sprintf("mkCase %d [%s] [%s]", ttlTicks, strings.Join(hist, "; "), strings.Join(missObs, "; ")))
		}
		obs.CaseInputs = append(obs.CaseInputs, c)
		obs.Count("ttl_" + c.TTL)
		if c.Parallel > 1 {
			obs.Count("concurrent")
		}
		if len(keyIDs) >= 2 {
			distinct[fmt.Sprint(hist)] = true
		}
		for _, e := range c.History {
			if e.Op.Kind != "" {
				obs.Count("variant_" + e.Op.Kind)
			}
		}
		if idx%9 == 3 && len(obs.Samples) < 4 {
			var qs []string
			for _, e := range c.History {
				qs = append(qs, shortStr(e.Op.Query, 80))
			}
			obs.Samples = append(obs.Samples, map[string]interface{}{"ttl": c.TTL, "history": qs, "model_history": hist, "misses": missObs})
		}
	}
	obs.Evaluations = len(coq)
	obs.DistinctNontrivial = len(distinct)
	obs.Rule = "twin gateways (plain / caching planner) over histories of 6-15 requests drawn from a pool of generated operations and their near-collisions (same selection under another operation type or name, other variable values, another body for the same fragment name; in worlds of the `inputs` domain the same text up to one scalar inside a list / input-object literal argument; on the hand-written federation query{x} vs mutation{x}), TTL 0 / 40 ms with 100 ms gaps straddling expiry / 1 h, every sixth history with 8 concurrent copies of each request; cache misses observed through a counting planner behind the real CachedPlanner; non-trivial = at least 2 distinct cache keys"
	hx.WriteCases(out, "From Pebbles Require Import Cache.Model Corr.C14.\nFrom Coq Require Import List. Import ListNotations.\n", "c14case", coq, "mismatches")
	obs.Write(out)
}
