package main

import (
	"bytes"
	"encoding/json"
	"errors"
	"fmt"
	"io"
	"math/rand"
	"net/http"
	"strings"

	"github.com/buildbuildio/pebbles/gqlerrors"
	"github.com/buildbuildio/pebbles/queryer"
	"github.com/buildbuildio/pebbles/requests"

	"verif/harness/coqprint"
	"verif/harness/fake"
	"verif/harness/gen"
	"verif/harness/hx"
)

func init() { drivers["C09"] = driveC09 }

type c09Case struct {
	// component: scripted answer to a batch of N plain sub-requests
	N      int    `json:"n,omitempty"`
	Kind   string `json:"answer_kind,omitempty"` // transport | status | body
	Status int    `json:"status,omitempty"`
	Body   string `json:"body,omitempty"`
	// gateway level: fault injected at a fake service
	WorldSeed int64       `json:"world_seed,omitempty"`
	OpSeed    int64       `json:"op_seed,omitempty"`
	FaultURL  string      `json:"fault_url,omitempty"`
	Fault     *fake.Fault `json:"fault,omitempty"`
	Op        *gen.GenOp  `json:"operation,omitempty"`
}

type scriptRT struct{ c c09Case }

func (s scriptRT) RoundTrip(r *http.Request) (*http.Response, error) {
	io.ReadAll(r.Body)
	switch s.c.Kind {
	case "transport":
		return nil, errors.New("connection refused")
	case "status":
		return &http.Response{StatusCode: s.c.Status, Body: io.NopCloser(strings.NewReader(s.c.Body)), Header: http.Header{}}, nil
	}
	return &http.Response{StatusCode: 200, Body: io.NopCloser(bytes.NewReader([]byte(s.c.Body))), Header: http.Header{}}, nil
}

var c09Elems = []string{
	`{"data":{"node":{"k":1}}}`, `{"data":{"x":"v"}}`, `{"data":{}}`, `{"data":null}`, `{}`, `null`, `5`, `"x"`, `[]`,
	`{"data":5}`, `{"data":[1]}`, `{"errors":{}}`, `{"errors":"boom"}`, `{"errors":[null]}`, `{"errors":[{"message":5}]}`, `{"errors":[7]}`,
	`{"Data":{"cased":true}}`, `{"data":{"a":1},"errors":[]}`, `{"data":{"a":1},"errors":null}`,
	`{"data":{"a":1},"errors":[{"message":"m","path":["a",1],"extensions":{"code":"X"}}]}`,
	`{"errors":[{"message":"e1"},{"message":"e2","locations":[{"line":1,"column":2}]}]}`,
	`{"errors":[{"message":"m","extensions":"bad"}]}`, `{"errors":[{"message":"m","path":"bad"}]}`, `{"errors":[{"message":"m","locations":[{"line":"x"}]}]}`,
	`{"data":{"node":null}}`, `{"data":{"node":"oops"}}`, `{"extra":1,"data":{"z":[1,2,{"q":null}]}}`,
}

func genC09Component(rng *rand.Rand) c09Case {
	n := 1 + rng.Intn(4)
	c := c09Case{N: n, Kind: "body"}
	switch r := rng.Intn(14); {
	case r == 0:
		c.Kind = "transport"
	case r == 1:
		c.Kind, c.Status, c.Body = "status", []int{500, 404, 199, 300, 302}[rng.Intn(5)], `[{"data":{"x":1}}]`
	case r == 2:
		c.Body = []string{"not json", "", "null", "{}", `{"data":{"x":1}}`, "5", `"[]"`, "[", `[{"data":{}}`}[rng.Intn(9)]
	default:
		l := n
		switch rng.Intn(6) {
		case 0:
			l = n - 1
		case 1:
			l = n + 1 + rng.Intn(2)
		}
		var es []string
		for i := 0; i < l; i++ {
			if rng.Intn(3) == 0 {
				es = append(es, c09Elems[rng.Intn(len(c09Elems))])
			} else {
				es = append(es, c09Elems[rng.Intn(3)])
			}
		}
		c.Body = "[" + strings.Join(es, ",") + "]"
		// a right answer followed by something else is not JSON any more; followed by white space it still is
		switch rng.Intn(12) {
		case 0:
			c.Body += []string{" x", "]", ` [{"errors":[{"message":"late"}]}]`, "<html>502 Bad Gateway</html>", " null", ",", "\x00"}[rng.Intn(7)]
		case 1:
			c.Body += []string{" ", "\n", "\r\n\t "}[rng.Intn(3)]
		}
	}
	return c
}

func runC09Component(c c09Case) (coq string, what string) {
	q := queryer.NewMultiOpQueryer("http://svc.invalid/graphql", 100).WithHTTPClient(&http.Client{Transport: scriptRT{c}})
	inputs := make([]*requests.Request, c.N)
	for i := range inputs {
		inputs[i] = &requests.Request{Query: fmt.Sprintf("{ r%d }", i)}
	}
	var res []map[string]interface{}
	var err error
	panicked := ""
	func() {
		defer func() {
			if p := recover(); p != nil {
				panicked = fmt.Sprint(p)
			}
		}()
		res, err = q.Query(inputs)
	}()
	var obs string
	switch {
	case panicked != "":
		obs = "OCrash"
		what = "MultiOpQueryer.Query panicked on a downstream answer: " + panicked
	case err != nil:
		if el, ok := err.(gqlerrors.ErrorList); ok {
			obs = fmt.Sprintf("(OErr (Some %d))", len(el))
		} else {
			obs = "(OErr None)"
		}
	default:
		ds := make([]string, len(res))
		for i, d := range res {
			if d == nil {
				what = fmt.Sprintf("Query returned a nil result in slot %d without an error", i)
				ds[i] = "[]"
				continue
			}
			// re-decode to keep numbers as text
			b, _ := json.Marshal(d)
			var m map[string]interface{}
			dec := json.NewDecoder(bytes.NewReader(b))
			dec.UseNumber()
			dec.Decode(&m)
			ds[i] = strings.TrimSuffix(strings.TrimPrefix(coqprint.JSON(m, nil), "(JObj "), ")")
		}
		if len(res) != c.N && what == "" {
			what = fmt.Sprintf("%d results for %d sub-requests", len(res), c.N)
		}
		obs = "(OOk [" + strings.Join(ds, "; ") + "])"
	}
	// the property, directly: a failure signal must surface as an error
	signal := c.Kind != "body"
	if !signal {
		var rs []struct {
			Errors []json.RawMessage      `json:"errors"`
			Data   map[string]interface{} `json:"data"`
		}
		if e := json.Unmarshal([]byte(c.Body), &rs); e != nil || len(rs) != c.N {
			signal = true
		} else {
			for _, r := range rs {
				if len(r.Errors) > 0 || r.Data == nil {
					signal = true
				}
			}
		}
	}
	if signal && err == nil && panicked == "" && what == "" {
		what = fmt.Sprintf("downstream failure signal masked: %d sub-requests answered with %s and Query returned results %v without error", c.N, shortStr(c.Body, 200), res)
	}
	var ans string
	switch c.Kind {
	case "transport":
		ans = "ATransport"
	case "status":
		ans = fmt.Sprintf("(AStatus %d)", c.Status)
	default:
		if tree, ok := coqprint.ParseOrdered([]byte(c.Body)); ok {
			ans = "(ABody (Some " + coqprint.OrderedToCoq(tree) + "))"
		} else {
			ans = "(ABody None)"
		}
	}
	return fmt.Sprintf("mkCase %d %s %s", c.N, ans, obs), what
}

func leaves(v interface{}, into map[string]bool) {
	switch x := v.(type) {
	case map[string]interface{}:
		for _, c := range x {
			leaves(c, into)
		}
	case []interface{}:
		for _, c := range x {
			leaves(c, into)
		}
	case nil:
	default:
		into[fmt.Sprint(x)] = true
	}
}

var c09FaultKinds = []string{"transport", "errors", "short", "long", "nulldata", "nonode", "node_not_map", "node_empty_list", "node_list", "node_number", "node_bool", "wrong_shape",
	"deep_obj_to_empty_list", "deep_obj_to_list", "deep_obj_to_scalar", "deep_list_to_obj", "deep_list_to_scalar",
	// a failing element whose errors are all blank (`[{}]`, `[{"message":""}]`): still a failure, still to be reported
	"blank_error", "blank_errors_with_data"}

func isFailureSignal(k string) bool { return k != "wrong_shape" && !strings.HasPrefix(k, "deep_") }

func driveC09(seed int64, tier, out, replay string) {
	rng := hx.NewRand(seed)
	obs := hx.NewObs("C09", seed, tier)
	nComp, nWorlds, opsPer := 500, 12, 6
	if tier == "thorough" {
		nComp, nWorlds, opsPer = 6000, 120, 10
	}
	var cases []c09Case
	if replay != "" {
		cases = loadReplayCases[c09Case](replay)
	} else {
		for i := 0; i < nComp; i++ {
			cases = append(cases, genC09Component(rng))
		}
		for i := 0; i < nWorlds; i++ {
			ws := rng.Int63()
			for j := 0; j < opsPer; j++ {
				cases = append(cases, c09Case{WorldSeed: ws, OpSeed: rng.Int63()})
			}
		}
	}
	// listed findings: a scripted downstream body through the real MultiOpQueryer; still failing while the value the
	// service returned is not, as text, in what Query hands on
	for _, k := range loadKnown("C09") {
		var kc struct {
			N      int    `json:"n"`
			Body   string `json:"body"`
			Expect string `json:"expect"`
		}
		if jsonUnmarshal(k.Input, &kc) != nil || kc.N == 0 {
			continue
		}
		q := queryer.NewMultiOpQueryer("http://svc.invalid/graphql", 100).WithHTTPClient(&http.Client{Transport: scriptRT{c09Case{N: kc.N, Kind: "body", Body: kc.Body}}})
		inputs := make([]*requests.Request, kc.N)
		for i := range inputs {
			inputs[i] = &requests.Request{Query: fmt.Sprintf("{ r%d }", i)}
		}
		res, err := q.Query(inputs)
		b, _ := json.Marshal(res)
		if err == nil && !strings.Contains(string(b), kc.Expect) {
			obs.KnownHit = append(obs.KnownHit, hx.Failure{Key: k.Key, What: k.Key + ": " + k.What})
		} else {
			obs.KnownGone = append(obs.KnownGone, k.Key)
		}
	}
	var coq []string
	distinct := map[string]bool{}
	rigs := map[int64]*Rig{}
	idx := 0
	for _, c := range cases {
		if c.WorldSeed == 0 {
			hx.Current(out, idx, c)
			line, what := runC09Component(c)
			if what != "" {
				obs.Fail(idx, what, c)
			}
			coq = append(coq, line)
			obs.CaseInputs = append(obs.CaseInputs, c)
			obs.Count("component_" + c.Kind)
			distinct[line] = true
			if idx%97 == 3 && len(obs.Samples) < 4 {
				obs.Samples = append(obs.Samples, map[string]interface{}{"case": c, "model_case": shortStr(line, 300)})
			}
			idx++
			continue
		}
		r := rigs[c.WorldSeed]
		if r == nil {
			var err error
			r, err = NewRig(worldFor(c.WorldSeed, "inD01"), RigConfig{})
			if err != nil {
				continue
			}
			rigs[c.WorldSeed] = r
		}
		var op gen.GenOp
		if c.Op != nil {
			op = *c.Op
		} else {
			op = gen.Operation(hx.NewRand(c.OpSeed), r.Merged, opOptionsFor("inD01", r.World))
		}
		// fault-free run: which services are called, how often
		for _, s := range r.Services {
			s.Faults = nil
		}
		what0, clean := compareFed(r, op)
		if strings.HasPrefix(what0, "skip:") || what0 != "" || clean == nil {
			continue
		}
		baseLog := r.Logs()
		callsPerURL := map[string]int{}
		batchSize := map[string]int{}
		for _, l := range baseLog {
			if l.Call+1 > callsPerURL[l.URL] {
				callsPerURL[l.URL] = l.Call + 1
			}
			batchSize[fmt.Sprint(l.URL, l.Call)]++
		}
		// every single fault: kind x service x call x position (sampled when large)
		type site struct {
			url       string
			call, pos int
		}
		var sites []site
		for u, n := range callsPerURL {
			for call := 0; call < n; call++ {
				for pos := 0; pos < batchSize[fmt.Sprint(u, call)]; pos++ {
					sites = append(sites, site{u, call, pos})
				}
			}
		}
		rng.Shuffle(len(sites), func(i, j int) { sites[i], sites[j] = sites[j], sites[i] })
		if len(sites) > 4 && tier != "thorough" {
			sites = sites[:4]
		}
		for _, st := range sites {
			for _, kind := range c09FaultKinds {
				fc := c
				fc.Op = &op
				fc.FaultURL = st.url
				fc.Fault = &fake.Fault{Kind: kind, Call: st.call, Pos: st.pos}
				if strings.HasPrefix(kind, "deep_") {
					fc.Fault.Where = rng.Intn(6)
				}
				hx.Current(out, idx, fc)
				for _, s := range r.Services {
					s.Faults = nil
				}
				r.Services[st.url].Faults = []fake.Fault{*fc.Fault}
				r.ResetLogs()
				resp, o := r.Do(op)
				what := ""
				switch {
				case o.Panic != "":
					what = "handler panicked under downstream fault: " + o.Panic
				case o.TimedOut:
					what = "gateway hung under downstream fault"
				case resp == nil:
					what = "response is not a JSON object: " + shortStr(string(o.Body), 150)
				default:
					el, _ := resp["errors"].([]interface{})
					_, hasData := resp["data"]
					if !hasData && len(el) == 0 {
						what = "response carries neither data nor errors"
					}
					// was the fault actually hit? (the faulty call may not happen when an earlier step already failed)
					hit := r.Services[st.url].FaultsApplied > 0
					if hit && isFailureSignal(kind) && len(el) == 0 {
						what = fmt.Sprintf("downstream failure signal %q at %s call %d pos %d was masked: no errors in %s", kind, st.url, st.call, st.pos, shortStr(string(o.Body), 200))
					}
					// provenance: every scalar leaf of data was returned by some service
					if what == "" && resp["data"] != nil {
						got := map[string]bool{}
						leaves(resp["data"], got)
						have := map[string]bool{}
						for _, l := range r.Logs() {
							leaves(l.Answer, have)
						}
						have["unexpected"], have["list"], have["object"], have["not-an-object"], have["oops"], have["7"], have["false"] = true, true, true, true, true, true, true
						for v := range got {
							if !have[v] {
								what = fmt.Sprintf("value %q in data was not returned by any service (fault %s)", v, kind)
								break
							}
						}
					}
				}
				if what != "" {
					obs.Fail(idx, what, fc)
				}
				obs.Count("gateway_fault_" + kind)
				obs.CaseInputs = append(obs.CaseInputs, fc)
				coq = append(coq, "mkCase 0 ATransport (OOk [])")
				distinct[fmt.Sprint(c.WorldSeed, op.Query, st, kind)] = true
				idx++
			}
		}
		// later requests are unaffected
		for _, s := range r.Services {
			s.Faults = nil
		}
		if what, _ := compareFed(r, op); what != "" {
			obs.Fail(idx, "after the faults were removed the same operation no longer matches the single server: "+what, c)
		}
	}
	obs.Evaluations = idx
	obs.DistinctNontrivial = len(distinct)
	obs.Rule = "component: scripted downstream answers (transport error, statuses, non-JSON, any JSON shape, arrays of length n-1/n/n+1 with elements from a pool of well- and ill-formed response objects) to the real MultiOpQueryer; gateway level: for generated worlds/operations every single fault (19 kinds, two of them failing elements whose errors carry no message, extensions or path) x service x call x batch position (<=4 sites per operation in the quick tier) injected at the evaluating fakes, then a fault-free re-run; distinct by (answer) resp. (world, operation, site, kind)"
	hx.WriteCases(out, "From Pebbles Require Import Base.Json Net.Decode Net.Faults Corr.C09.\nFrom Coq Require Import List String. Import ListNotations.\nOpen Scope string_scope.\n", "c9case", coq, "mismatches")
	obs.Write(out)
}
