package main

import (
	"fmt"
	"math/rand"
	"sort"
	"strings"

	"github.com/buildbuildio/pebbles/introspection"
	"github.com/buildbuildio/pebbles/queryer"
	"github.com/buildbuildio/pebbles/requests"
	"github.com/vektah/gqlparser/v2"
	"github.com/vektah/gqlparser/v2/ast"
	"github.com/vektah/gqlparser/v2/parser"
	"github.com/vektah/gqlparser/v2/validator"

	"verif/harness/coqprint"
	"verif/harness/fake"
	"verif/harness/gen"
	"verif/harness/hx"
)

func init() { drivers["C15"] = driveC15 }

type c15Case struct {
	SDL    string   `json:"sdl"`
	Stream string   `json:"stream"`
	Ops    []string `json:"operations,omitempty"`
}

// specQueryer is a service that answers introspection the way the specification prescribes
type specQueryer struct {
	schema *ast.Schema
	url    string
	asked  []string
}

func (q *specQueryer) URL() string { return q.url }
func (q *specQueryer) Subscribe(*requests.Request, <-chan struct{}, chan *requests.Response) error {
	return nil
}
func (q *specQueryer) Query(reqs []*requests.Request) ([]map[string]interface{}, error) {
	var out []map[string]interface{}
	for _, r := range reqs {
		q.asked = append(q.asked, r.Query)
		name := ""
		if r.OperationName != nil {
			name = *r.OperationName
		}
		m, err := fake.ExecIntrospection(q.schema, r.Query, name, r.Variables)
		if err != nil {
			return nil, err
		}
		out = append(out, m)
	}
	return out, nil
}

var _ queryer.Queryer = &specQueryer{}

type sdiff struct {
	Kind  string `json:"kind"`
	Where string `json:"where"`
	Want  string `json:"original"`
	Got   string `json:"reconstructed"`
}

func depString(dl ast.DirectiveList) string {
	if d := dl.ForName("deprecated"); d != nil {
		reason := "No longer supported"
		if a := d.Arguments.ForName("reason"); a != nil {
			reason = a.Value.Raw
		}
		return "deprecated: " + reason
	}
	return ""
}

func valString(v *ast.Value) string {
	if v == nil {
		return "<none>"
	}
	return v.String()
}

func sortedCopy(xs []string) []string {
	out := append([]string{}, xs...)
	sort.Strings(out)
	return out
}

func defNames(ds []*ast.Definition) []string {
	var out []string
	for _, d := range ds {
		out = append(out, d.Name)
	}
	sort.Strings(out)
	return out
}

func diffArgs(kindPrefix, where string, a, b ast.ArgumentDefinitionList, out *[]sdiff) {
	if len(a) != len(b) {
		*out = append(*out, sdiff{kindPrefix + "-args", where, fmt.Sprint(len(a)), fmt.Sprint(len(b))})
		return
	}
	for i := range a {
		w := where + "(" + a[i].Name + ":)"
		if a[i].Name != b[i].Name {
			*out = append(*out, sdiff{kindPrefix + "-arg-name", w, a[i].Name, b[i].Name})
			continue
		}
		if a[i].Type.String() != b[i].Type.String() {
			*out = append(*out, sdiff{kindPrefix + "-arg-type", w, a[i].Type.String(), b[i].Type.String()})
		}
		if a[i].Description != b[i].Description {
			*out = append(*out, sdiff{kindPrefix + "-arg-description", w, a[i].Description, b[i].Description})
		}
		if valString(a[i].DefaultValue) != valString(b[i].DefaultValue) {
			k := kindPrefix + "-arg-default-altered"
			if b[i].DefaultValue == nil {
				k = kindPrefix + "-arg-default-dropped"
			}
			*out = append(*out, sdiff{k, w, valString(a[i].DefaultValue), valString(b[i].DefaultValue)})
		}
	}
}

// schemaDiffs lists every difference between a service schema and its reconstruction that the property names
func schemaDiffs(a, b *ast.Schema) []sdiff {
	var out []sdiff
	rootName := func(d *ast.Definition) string {
		if d == nil {
			return "<none>"
		}
		return d.Name
	}
	for _, r := range []struct {
		n    string
		x, y *ast.Definition
	}{{"query", a.Query, b.Query}, {"mutation", a.Mutation, b.Mutation}, {"subscription", a.Subscription, b.Subscription}} {
		if rootName(r.x) != rootName(r.y) {
			out = append(out, sdiff{"root-type", r.n, rootName(r.x), rootName(r.y)})
		}
	}
	var names []string
	for n := range a.Types {
		names = append(names, n)
	}
	for n := range b.Types {
		if a.Types[n] == nil {
			out = append(out, sdiff{"type-invented", n, "<none>", string(b.Types[n].Kind)})
		}
	}
	sort.Strings(names)
	for _, n := range names {
		x, y := a.Types[n], b.Types[n]
		if y == nil {
			out = append(out, sdiff{"type-lost", n, string(x.Kind), "<none>"})
			continue
		}
		if x.Kind != y.Kind {
			out = append(out, sdiff{"type-kind", n, string(x.Kind), string(y.Kind)})
			continue
		}
		if strings.HasPrefix(n, "__") {
			continue
		}
		if x.Description != y.Description {
			out = append(out, sdiff{"type-description", n, x.Description, y.Description})
		}
		if fmt.Sprint(sortedCopy(x.Interfaces)) != fmt.Sprint(sortedCopy(y.Interfaces)) {
			out = append(out, sdiff{"interfaces", n, fmt.Sprint(sortedCopy(x.Interfaces)), fmt.Sprint(sortedCopy(y.Interfaces))})
		}
		if fmt.Sprint(sortedCopy(x.Types)) != fmt.Sprint(sortedCopy(y.Types)) {
			out = append(out, sdiff{"union-members", n, fmt.Sprint(sortedCopy(x.Types)), fmt.Sprint(sortedCopy(y.Types))})
		}
		if x.Kind == ast.Interface || x.Kind == ast.Union {
			if p, q := defNames(a.GetPossibleTypes(x)), defNames(b.GetPossibleTypes(y)); fmt.Sprint(p) != fmt.Sprint(q) {
				out = append(out, sdiff{"possible-types", n, fmt.Sprint(p), fmt.Sprint(q)})
			}
		}
		if p, q := defNames(a.GetImplements(x)), defNames(b.GetImplements(y)); fmt.Sprint(p) != fmt.Sprint(q) {
			out = append(out, sdiff{"implements", n, fmt.Sprint(p), fmt.Sprint(q)})
		}
		if len(x.EnumValues) != len(y.EnumValues) {
			out = append(out, sdiff{"enum-values", n, fmt.Sprint(len(x.EnumValues)), fmt.Sprint(len(y.EnumValues))})
		} else {
			for i, e := range x.EnumValues {
				w := n + "." + e.Name
				if e.Name != y.EnumValues[i].Name {
					out = append(out, sdiff{"enum-value-name", w, e.Name, y.EnumValues[i].Name})
					continue
				}
				if e.Description != y.EnumValues[i].Description {
					out = append(out, sdiff{"enum-value-description", w, e.Description, y.EnumValues[i].Description})
				}
				if depString(e.Directives) != depString(y.EnumValues[i].Directives) {
					out = append(out, sdiff{"enum-value-deprecation", w, depString(e.Directives), depString(y.EnumValues[i].Directives)})
				}
			}
		}
		fieldsOf := func(d *ast.Definition) ast.FieldList {
			var fl ast.FieldList
			for _, f := range d.Fields {
				if !strings.HasPrefix(f.Name, "__") {
					fl = append(fl, f)
				}
			}
			return fl
		}
		fx, fy := fieldsOf(x), fieldsOf(y)
		if len(fx) != len(fy) {
			out = append(out, sdiff{"fields", n, fmt.Sprint(len(fx)), fmt.Sprint(len(fy))})
			continue
		}
		for i, f := range fx {
			g := fy[i]
			w := n + "." + f.Name
			if f.Name != g.Name {
				out = append(out, sdiff{"field-name", w, f.Name, g.Name})
				continue
			}
			if f.Type.String() != g.Type.String() {
				out = append(out, sdiff{"field-type", w, f.Type.String(), g.Type.String()})
			}
			if f.Description != g.Description {
				out = append(out, sdiff{"field-description", w, f.Description, g.Description})
			}
			if depString(f.Directives) != depString(g.Directives) {
				out = append(out, sdiff{"field-deprecation", w, depString(f.Directives), depString(g.Directives)})
			}
			if x.Kind == ast.InputObject {
				if valString(f.DefaultValue) != valString(g.DefaultValue) {
					k := "input-default-altered"
					if g.DefaultValue == nil {
						k = "input-default-dropped"
					}
					out = append(out, sdiff{k, w, valString(f.DefaultValue), valString(g.DefaultValue)})
				}
			} else {
				diffArgs("field", w, f.Arguments, g.Arguments, &out)
			}
		}
	}
	var dnames []string
	for n := range a.Directives {
		dnames = append(dnames, n)
	}
	for n := range b.Directives {
		if a.Directives[n] == nil {
			out = append(out, sdiff{"directive-invented", "@" + n, "<none>", "defined"})
		}
	}
	sort.Strings(dnames)
	for _, n := range dnames {
		x, y := a.Directives[n], b.Directives[n]
		w := "@" + n
		if y == nil {
			out = append(out, sdiff{"directive-lost", w, "defined", "<none>"})
			continue
		}
		if n == "skip" || n == "include" || n == "deprecated" || n == "specifiedBy" {
			continue
		}
		if x.Description != y.Description {
			out = append(out, sdiff{"directive-description", w, x.Description, y.Description})
		}
		if fmt.Sprint(x.Locations) != fmt.Sprint(y.Locations) {
			out = append(out, sdiff{"directive-locations", w, fmt.Sprint(x.Locations), fmt.Sprint(y.Locations)})
		}
		diffArgs("directive", w, x.Arguments, y.Arguments, &out)
	}
	return out
}

// ---- operations against a generated schema, valid and invalid, for "valid against S iff valid against the reconstruction" ----
type c15OpGen struct {
	rng *rand.Rand
	s   *ast.Schema
}

func (g *c15OpGen) literal(t *ast.Type, depth int) string {
	if !t.NonNull && g.rng.Intn(8) == 0 {
		return "null"
	}
	if t.Elem != nil {
		n := g.rng.Intn(3)
		items := make([]string, n)
		for i := range items {
			items[i] = g.literal(t.Elem, depth)
		}
		return "[" + strings.Join(items, ", ") + "]"
	}
	d := g.s.Types[t.NamedType]
	switch {
	case d == nil:
		return "null"
	case d.Kind == ast.Enum:
		if g.rng.Intn(10) == 0 {
			return "NOT_A_VALUE"
		}
		return d.EnumValues[g.rng.Intn(len(d.EnumValues))].Name
	case d.Kind == ast.InputObject:
		var parts []string
		for _, f := range d.Fields {
			required := f.Type.NonNull && f.DefaultValue == nil
			// sometimes leave out a non-null field that has a default (valid only thanks to the default), rarely a required one
			if (!required && g.rng.Intn(2) == 0) || (required && g.rng.Intn(12) == 0) {
				continue
			}
			parts = append(parts, f.Name+": "+g.literal(f.Type, depth+1))
		}
		return "{" + strings.Join(parts, ", ") + "}"
	}
	switch t.NamedType {
	case "Int":
		return fmt.Sprint(g.rng.Intn(50))
	case "Float":
		return "1.5"
	case "Boolean":
		return "true"
	case "String", "ID":
		if g.rng.Intn(12) == 0 {
			return "7.5" // wrong kind of literal
		}
		return `"s"`
	}
	return `"custom"`
}

func (g *c15OpGen) args(al ast.ArgumentDefinitionList) string {
	var parts []string
	for _, a := range al {
		required := a.Type.NonNull && a.DefaultValue == nil
		if (!required && g.rng.Intn(2) == 0) || (required && g.rng.Intn(12) == 0) {
			continue
		}
		parts = append(parts, a.Name+": "+g.literal(a.Type, 0))
	}
	if g.rng.Intn(25) == 0 {
		parts = append(parts, "nosucharg: 1")
	}
	if len(parts) == 0 {
		return ""
	}
	return "(" + strings.Join(parts, ", ") + ")"
}

func (g *c15OpGen) sel(d *ast.Definition, depth int) string {
	var parts []string
	if d.Kind == ast.Union || g.rng.Intn(4) == 0 {
		parts = append(parts, "__typename")
	}
	if d.Kind == ast.Object || d.Kind == ast.Interface {
		for _, f := range d.Fields {
			if strings.HasPrefix(f.Name, "__") || g.rng.Intn(2) == 0 {
				continue
			}
			td := g.s.Types[f.Type.Name()]
			composite := td != nil && (td.Kind == ast.Object || td.Kind == ast.Interface || td.Kind == ast.Union)
			if composite && depth <= 0 {
				continue
			}
			s := f.Name + g.args(f.Arguments)
			if dep := f.Directives.ForName("deprecated"); dep != nil && g.rng.Intn(2) == 0 {
				s = "old: " + s
			}
			if composite {
				s += " " + g.sel(td, depth-1)
			}
			parts = append(parts, s)
		}
	}
	if d.Kind == ast.Union || d.Kind == ast.Interface {
		for _, p := range g.s.GetPossibleTypes(d) {
			if g.rng.Intn(2) == 0 && depth > 0 {
				parts = append(parts, "... on "+p.Name+" "+g.sel(p, depth-1))
			}
		}
	}
	if g.rng.Intn(15) == 0 {
		// a fragment on some other composite type: valid exactly when the two types can overlap
		var cands []string
		for n, t := range g.s.Types {
			if !strings.HasPrefix(n, "__") && (t.Kind == ast.Object || t.Kind == ast.Interface || t.Kind == ast.Union) {
				cands = append(cands, n)
			}
		}
		sort.Strings(cands)
		parts = append(parts, "... on "+cands[g.rng.Intn(len(cands))]+" { __typename }")
	}
	if g.rng.Intn(30) == 0 {
		parts = append(parts, "nosuchfield")
	}
	if len(parts) == 0 {
		parts = append(parts, "__typename")
	}
	return "{ " + strings.Join(parts, " ") + " }"
}

func (g *c15OpGen) operation() string {
	root, kw := g.s.Query, "query"
	if g.s.Mutation != nil && g.rng.Intn(4) == 0 {
		root, kw = g.s.Mutation, "mutation"
	}
	return kw + " " + g.sel(root, 3)
}

func validAgainst(s *ast.Schema, op string) (bool, string) {
	doc, err := parser.ParseQuery(&ast.Source{Input: op})
	if err != nil {
		return false, "parse: " + err.Error()
	}
	errs := validator.Validate(s, doc)
	if len(errs) > 0 {
		return false, errs[0].Message
	}
	return true, ""
}

func c15Options(stream string) gen.RichOptions {
	o := gen.RichOptions{MaxWrap: 7, OddNames: true, IfaceOfIface: true, Directives: true, RenamedRoots: true, Descriptions: true, Deprecations: true}
	switch stream {
	case "defaults":
		o.ArgDefaults, o.InputDefaults = true, true
	case "deep":
		o.MaxWrap = 10
	case "uses":
		o.DirectiveUses = true
	}
	return o
}

// listed finding kinds are the call sites that lose information: parseArgList (field and directive arguments),
// parseInputField (spec-shaped literal strings)
var c15KnownKinds = map[string]string{
	"field-arg-default-dropped":     "C15-arg-default",
	"directive-arg-default-dropped": "C15-arg-default",
	"input-default-altered":         "C15-input-default",
	"input-default-dropped":         "C15-input-default",
}

type c15Result struct {
	orig, recon *ast.Schema
	err         error
	queries     int
}

func runC15(sdl string) (c15Result, error) {
	orig, gerr := gqlparser.LoadSchema(&ast.Source{Name: "svc", Input: sdl})
	if gerr != nil {
		return c15Result{}, fmt.Errorf("generator produced an invalid schema: %v", gerr)
	}
	q := &specQueryer{schema: orig, url: "http://svc"}
	in := &introspection.ParallelRemoteSchemaIntrospector{Factory: func(url string) queryer.Queryer { return q }}
	res, err := in.IntrospectRemoteSchemas("http://svc")
	r := c15Result{orig: orig, err: err, queries: len(q.asked)}
	if err == nil {
		if len(res) != 1 || res[0] == nil {
			return r, fmt.Errorf("IntrospectRemoteSchemas returned %d schemas without an error", len(res))
		}
		r.recon = res[0]
	}
	return r, nil
}

func maxWrapDepth(s *ast.Schema) int {
	depth := func(t *ast.Type) int {
		n := 0
		for t != nil {
			if t.NonNull {
				n++
			}
			if t.Elem != nil {
				n++
			}
			t = t.Elem
		}
		return n
	}
	m := 0
	upd := func(t *ast.Type) {
		if d := depth(t); d > m {
			m = d
		}
	}
	for n, d := range s.Types {
		if strings.HasPrefix(n, "__") {
			continue
		}
		for _, f := range d.Fields {
			upd(f.Type)
			for _, a := range f.Arguments {
				upd(a.Type)
			}
		}
	}
	for _, d := range s.Directives {
		for _, a := range d.Arguments {
			upd(a.Type)
		}
	}
	return m
}

func driveC15(seed int64, tier, out, replay string) {
	obs := hx.NewObs("C15", seed, tier)
	rng := hx.NewRand(seed)
	n := 150
	if tier == "thorough" {
		n = 1500
	}
	known := loadKnown("C15")
	listed := map[string]bool{}
	for _, k := range known {
		listed[k.Key] = true
	}
	// listed findings first: each is a specific SDL document plus the kind of difference it shows
	for _, k := range known {
		var kc struct {
			SDL   string   `json:"sdl"`
			Kinds []string `json:"difference_kinds"`
			Op    string   `json:"operation_whose_validity_changes,omitempty"`
		}
		if jsonUnmarshal(k.Input, &kc) != nil {
			continue
		}
		r, err := runC15(kc.SDL)
		still := false
		if err == nil && r.err == nil {
			for _, d := range schemaDiffs(r.orig, r.recon) {
				for _, want := range kc.Kinds {
					still = still || d.Kind == want
				}
			}
		}
		if still {
			obs.KnownHit = append(obs.KnownHit, hx.Failure{Key: k.Key, What: k.Key + ": " + k.What})
		} else {
			obs.KnownGone = append(obs.KnownGone, k.Key)
		}
	}
	var cases []c15Case
	if replay != "" {
		cases = loadReplayCases[c15Case](replay)
	} else {
		streams := []string{"domain", "domain", "domain", "defaults", "deep", "uses"}
		for i := 0; i < n; i++ {
			st := streams[i%len(streams)]
			r := rand.New(rand.NewSource(rng.Int63()))
			c := c15Case{SDL: gen.RichSchema(r, c15Options(st)), Stream: st}
			if s, err := gqlparser.LoadSchema(&ast.Source{Input: c.SDL}); err == nil {
				og := &c15OpGen{rng: r, s: s}
				for j := 0; j < 12; j++ {
					c.Ops = append(c.Ops, og.operation())
				}
				// the introspection entry points of the query root, and operation kinds the schema may lack
				c.Ops = append(c.Ops, "query { __schema { queryType { name } } }", "query { __type(name: \"Obj0\") { name } }",
					"mutation { __typename }", "subscription { __typename }")
			}
			cases = append(cases, c)
		}
	}
	var coq []string
	distinct := map[string]bool{}
	for i, c := range cases {
		hx.Current(out, i, c)
		obs.Evaluations++
		obs.Count("stream_" + c.Stream)
		obs.CaseInputs = append(obs.CaseInputs, c)
		r, err := runC15(c.SDL)
		if err != nil {
			obs.Fail(i, err.Error(), c)
			continue
		}
		if r.queries != 1 {
			obs.Fail(i, fmt.Sprintf("the service was asked %d introspection queries, expected 1", r.queries), c)
		}
		origCoq := coqprint.IntroSchema(r.orig)
		distinct[origCoq] = true
		deep := maxWrapDepth(r.orig)
		obs.Count(fmt.Sprintf("max_wrapper_depth_%02d", deep))
		obs.Count(fmt.Sprintf("types_%02d", len(r.orig.Types)/5*5))
		if r.err != nil {
			obs.Count("outcome_startup_error")
			coq = append(coq, fmt.Sprintf("mkCase %s OErr", origCoq))
			if deep <= 7 {
				obs.Fail(i, "a valid schema within the depth the introspection query asks for was rejected: "+r.err.Error(), c)
			}
			continue
		}
		obs.Count("outcome_schema")
		coq = append(coq, fmt.Sprintf("mkCase %s (OOk %s)", origCoq, coqprint.IntroSchema(r.recon)))
		diffs := schemaDiffs(r.orig, r.recon)
		var unknown []sdiff
		knownHere := false
		for _, d := range diffs {
			if key, ok := c15KnownKinds[d.Kind]; ok && listed[key] {
				obs.Count("listed_difference_" + d.Kind)
				knownHere = true
				continue
			}
			unknown = append(unknown, d)
		}
		if len(unknown) > 0 {
			obs.Fail(i, fmt.Sprintf("the reconstructed schema differs from the service schema: %+v", unknown[:min(len(unknown), 4)]), c)
			continue
		}
		if len(diffs) == 0 {
			obs.Count("identical")
		}
		for _, op := range c.Ops {
			va, ra := validAgainst(r.orig, op)
			vb, rb := validAgainst(r.recon, op)
			obs.Count(fmt.Sprintf("operation_valid_%v", va))
			if va != vb {
				if knownHere {
					obs.Count("validity_differs_where_a_listed_difference_applies")
					continue
				}
				obs.Fail(i, fmt.Sprintf("operation %q: valid against the service schema = %v (%s), against the reconstruction = %v (%s)", op, va, ra, vb, rb), c)
				break
			}
		}
	}
	obs.DistinctNontrivial = len(distinct)
	obs.Rule = "generated SDL (objects, interfaces incl. interface-of-interface, unions, enums, input objects, custom scalars, directive definitions with arguments, wrappers to depth 10, renamed roots, descriptions, deprecations, default values) served by an independent executor of the specification's introspection section; the schema returned by ParallelRemoteSchemaIntrospector is compared member by member with the source schema, 12 valid/invalid operations per schema are validated against both, and the Coq model reconstruct∘introspect is evaluated on every schema"
	if len(cases) > 0 {
		obs.Samples = append(obs.Samples, cases[0])
	}
	hx.WriteCases(out, "From Coq Require Import List String.\nFrom Pebbles Require Import Intro.Schema Corr.C15.\nImport ListNotations.\nOpen Scope string_scope.\n", "c15case", coq, "mismatches")
	obs.Write(out)
}
