package main

import (
	"encoding/json"
	"fmt"
	"os"
	"sort"
	"strings"

	"verif/harness/coqprint"
	"verif/harness/gen"
	"verif/harness/hx"
)

func init() {
	drivers["C03"] = func(seed int64, tier, out, replay string) { driveMerge("C03", seed, tier, out, replay) }
	drivers["C04"] = func(seed int64, tier, out, replay string) { driveMerge("C04", seed, tier, out, replay) }
	drivers["C05"] = func(seed int64, tier, out, replay string) { driveMerge("C05", seed, tier, out, replay) }
}

type knownFinding struct {
	Property string          `json:"property"`
	Key      string          `json:"key"`
	What     string          `json:"what"`
	Input    json.RawMessage `json:"input"`
}

func loadKnown(prop string) []knownFinding {
	var out []knownFinding
	if knownPath == "" {
		return out
	}
	b, err := os.ReadFile(knownPath)
	if err != nil {
		return out
	}
	for _, line := range strings.Split(string(b), "\n") {
		line = strings.TrimSpace(line)
		if line == "" || strings.HasPrefix(line, "fixed:") || strings.HasPrefix(line, "#") {
			continue
		}
		var k knownFinding
		if json.Unmarshal([]byte(line), &k) == nil && k.Property == prop {
			out = append(out, k)
		}
	}
	return out
}

func fieldSig(f coqprint.CanonFld) string { return fmt.Sprint(f.Type, f.Args) }

func findCanon(cs []coqprint.CanonDef, name string) *coqprint.CanonDef {
	for i := range cs {
		if cs[i].Name == name {
			return &cs[i]
		}
	}
	return nil
}

func findFld(d *coqprint.CanonDef, name string) *coqprint.CanonFld {
	for i := range d.Fields {
		if d.Fields[i].Name == name {
			return &d.Fields[i]
		}
	}
	return nil
}

func has(l []string, x string) bool {
	for _, y := range l {
		if x == y {
			return true
		}
	}
	return false
}

func isNodeFld(f coqprint.CanonFld) bool {
	return len(f.Args) == 1 && f.Args[0][0] == "id" && f.Args[0][1] == "ID!" && f.Type == "Node"
}

// C03, directly on the implementation: merged = union of the inputs.
func oracleC03(c mergeCase, o mergeObs) string {
	M := o.Types
	for si, in := range o.Inputs {
		for _, d := range in {
			md := findCanon(M, d.Name)
			if md == nil {
				return fmt.Sprintf("type %s of service %d is missing from the gateway schema", d.Name, si)
			}
			if md.Kind != d.Kind {
				return fmt.Sprintf("type %s has kind %s in service %d and %s in the gateway schema", d.Name, d.Kind, si, md.Kind)
			}
			for _, f := range d.Fields {
				if c.Hide && d.Name == "Query" && f.Name == "node" && isNodeFld(f) {
					continue // the Relay entry point is what the node-hiding merger takes out
				}
				mf := findFld(md, f.Name)
				if mf == nil {
					return fmt.Sprintf("field %s.%s of service %d is missing from the gateway schema", d.Name, f.Name, si)
				}
				if fieldSig(*mf) != fieldSig(f) {
					return fmt.Sprintf("field %s.%s: service %d declares %s, the gateway schema %s", d.Name, f.Name, si, fieldSig(f), fieldSig(*mf))
				}
			}
			for _, ev := range d.EValues {
				if !has(md.EValues, ev) {
					return fmt.Sprintf("enum value %s.%s of service %d is missing", d.Name, ev, si)
				}
			}
			for _, ut := range d.UTypes {
				if !has(md.UTypes, ut) {
					return fmt.Sprintf("union member %s of %s (service %d) is missing", ut, d.Name, si)
				}
			}
			for _, it := range d.Ifaces {
				if !has(md.Ifaces, it) {
					return fmt.Sprintf("%s implements %s in service %d but not in the gateway schema", d.Name, it, si)
				}
			}
		}
	}
	for _, md := range M {
		found := false
		for _, in := range o.Inputs {
			if findCanon(in, md.Name) != nil {
				found = true
			}
		}
		if !found {
			return fmt.Sprintf("gateway schema has type %s that no service declares", md.Name)
		}
		seen := map[string]bool{}
		for _, mf := range md.Fields {
			if seen[mf.Name] {
				return fmt.Sprintf("field %s.%s appears twice in the gateway schema", md.Name, mf.Name)
			}
			seen[mf.Name] = true
			ok := false
			for _, in := range o.Inputs {
				if d := findCanon(in, md.Name); d != nil {
					if f := findFld(d, mf.Name); f != nil && fieldSig(*f) == fieldSig(mf) {
						ok = true
					}
				}
			}
			if !ok {
				return fmt.Sprintf("gateway field %s.%s (%s) is declared by no service with that signature", md.Name, mf.Name, fieldSig(mf))
			}
		}
		for _, ev := range md.EValues {
			ok := false
			for _, in := range o.Inputs {
				if d := findCanon(in, md.Name); d != nil && has(d.EValues, ev) {
					ok = true
				}
			}
			if !ok {
				return fmt.Sprintf("gateway enum value %s.%s is declared by no service", md.Name, ev)
			}
		}
		for _, ut := range md.UTypes {
			ok := false
			for _, in := range o.Inputs {
				if d := findCanon(in, md.Name); d != nil && has(d.UTypes, ut) {
					ok = true
				}
			}
			if !ok {
				return fmt.Sprintf("gateway union %s has member %s that no service declares", md.Name, ut)
			}
		}
		for _, it := range md.Ifaces {
			ok := false
			for _, in := range o.Inputs {
				if d := findCanon(in, md.Name); d != nil && has(d.Ifaces, it) {
					ok = true
				}
			}
			if !ok {
				return fmt.Sprintf("gateway type %s implements %s, which no service declares", md.Name, it)
			}
		}
	}
	return ""
}

// C04, directly on the implementation.
func oracleC04(c mergeCase, o mergeObs) string {
	// the planner's reading of the table: a root field or a field of a Node type goes to its route from
	// wherever it is asked and whatever operation runs
	if o.RouteOp != "" {
		return o.RouteOp
	}
	table := map[string]map[string]string{}
	isNode := map[string]bool{}
	for _, e := range o.TM {
		table[e.Type] = map[string]string{}
		isNode[e.Type] = e.IsNode
		for _, f := range e.Fields {
			table[e.Type][f[0]] = f[1]
		}
	}
	for _, r := range o.Routes {
		u, routed := table[r.Type][r.Field]
		if routed && (isNode[r.Type] || r.Type == "Query" || r.Type == "Mutation" || r.Type == "Subscription") && r.Result != "url:"+u {
			return fmt.Sprintf("%s.%s is routed to %s but the planner, asked from %q, is told %s", r.Type, r.Field, u, r.From, r.Result)
		}
	}
	tm := map[string]tmEntry{}
	for _, e := range o.TM {
		tm[e.Type] = e
	}
	route := func(t, f string) (string, bool) {
		for _, x := range tm[t].Fields {
			if x[0] == f {
				return x[1], true
			}
		}
		return "", false
	}
	svcIdx := map[string]int{}
	for i, u := range c.URLs {
		svcIdx[u] = i
	}
	used := map[string]bool{}
	for _, md := range o.Types {
		if md.Kind != "KObject" {
			continue
		}
		e, ok := tm[md.Name]
		for _, f := range md.Fields {
			if f.Name == "id" || (md.Name == "Query" && f.Name == "node" && isNodeFld(f)) {
				continue
			}
			u, rok := route(md.Name, f.Name)
			if !rok {
				return fmt.Sprintf("field %s.%s of the gateway schema has no route", md.Name, f.Name)
			}
			si, known := svcIdx[u]
			if !known {
				return fmt.Sprintf("field %s.%s is routed to %q, which is not a configured service", md.Name, f.Name, u)
			}
			d := findCanon(o.Inputs[si], md.Name)
			if d == nil || findFld(d, f.Name) == nil {
				return fmt.Sprintf("field %s.%s is routed to %s, whose schema does not declare it", md.Name, f.Name, u)
			}
			used[u] = true
			if md.Name == "Query" || md.Name == "Mutation" || md.Name == "Subscription" {
				cnt := 0
				for _, in := range o.Inputs {
					if d := findCanon(in, md.Name); d != nil && findFld(d, f.Name) != nil {
						cnt++
					}
				}
				if cnt != 1 {
					return fmt.Sprintf("root field %s.%s is declared by %d services", md.Name, f.Name, cnt)
				}
			}
		}
		impl := has(md.Ifaces, "Node")
		if ok && e.IsNode != impl {
			return fmt.Sprintf("type %s: stitchable-by-id flag is %v but implements Node is %v", md.Name, e.IsNode, impl)
		}
		if !ok && impl {
			return fmt.Sprintf("type %s implements Node but is not in the routing table", md.Name)
		}
	}
	// routed services = services that contributed (are the routed owner of) fields; none outside the configured set
	for _, e := range o.TM {
		for _, x := range e.Fields {
			if _, known := svcIdx[x[1]]; !known {
				return fmt.Sprintf("routing table names unknown service %q", x[1])
			}
		}
	}
	urls := map[string]bool{}
	for _, u := range o.Result.TypeURLMap.GetURLs() {
		urls[u] = true
	}
	for u := range used {
		if !urls[u] {
			return fmt.Sprintf("service %s owns routed fields but is not in the set of routed services", u)
		}
	}
	for u := range urls {
		if !used[u] {
			// a service may be routed for fields of types that are not in the merged schema only if the table is stale
			found := false
			for _, e := range o.TM {
				for _, x := range e.Fields {
					if x[1] == u && findCanon(o.Types, e.Type) != nil && findFld(findCanon(o.Types, e.Type), x[0]) != nil {
						found = true
					}
				}
			}
			if !found {
				return fmt.Sprintf("service %s is in the set of routed services but owns no field of the gateway schema", u)
			}
		}
	}
	// every service that is the only declarer of some routable field must be routed
	for si, in := range o.Inputs {
		for _, d := range in {
			if d.Kind != "KObject" {
				continue
			}
			for _, f := range d.Fields {
				if f.Name == "id" || isNodeFld(f) {
					continue
				}
				cnt := 0
				for _, in2 := range o.Inputs {
					if d2 := findCanon(in2, d.Name); d2 != nil && findFld(d2, f.Name) != nil {
						cnt++
					}
				}
				if cnt == 1 && !urls[c.URLs[si]] {
					return fmt.Sprintf("service %s is the only one declaring %s.%s but is not among the routed services", c.URLs[si], d.Name, f.Name)
				}
			}
		}
	}
	return ""
}

func typesKey(ts []coqprint.CanonDef) string {
	// order-insensitive rendering of "the resulting set of types and fields"
	var parts []string
	for _, d := range ts {
		var fs []string
		for _, f := range d.Fields {
			fs = append(fs, f.Name+":"+fieldSig(f))
		}
		sort.Strings(fs)
		ev := append([]string(nil), d.EValues...)
		sort.Strings(ev)
		ut := append([]string(nil), d.UTypes...)
		sort.Strings(ut)
		it := append([]string(nil), d.Ifaces...)
		sort.Strings(it)
		parts = append(parts, fmt.Sprint(d.Kind, d.Name, it, fs, ev, ut))
	}
	sort.Strings(parts)
	return strings.Join(parts, "\n")
}

func nodeRoutesKey(o mergeObs) string {
	var parts []string
	for _, e := range o.TM {
		if e.IsNode {
			parts = append(parts, fmt.Sprint(e.Type, e.Fields))
		}
	}
	return strings.Join(parts, ";")
}

func driveMerge(prop string, seed int64, tier, out, replay string) {
	rng := hx.NewRand(seed)
	obs := hx.NewObs(prop, seed, tier)
	nSets := 40
	if tier == "thorough" {
		nSets = 400
	}
	type group struct {
		cases    []mergeCase
		conflict string // non-empty: every member must be rejected
	}
	var groups []group
	addPerms := func(base mergeCase, conflict string, maxPerm int) {
		n := len(base.SDLs)
		var g group
		g.conflict = conflict
		perms := hx.Permutations(n)
		if len(perms) > maxPerm {
			rng.Shuffle(len(perms), func(i, j int) { perms[i], perms[j] = perms[j], perms[i] })
			perms = perms[:maxPerm]
		}
		for _, p := range perms {
			g.cases = append(g.cases, permuteCase(base, p))
		}
		groups = append(groups, g)
	}
	if replay != "" {
		for _, c := range loadReplayCases[mergeCase](replay) {
			groups = append(groups, group{cases: []mergeCase{c}, conflict: strings.TrimPrefix(strings.Split(c.Origin, "+")[0], "conflict:")})
			if !strings.HasPrefix(c.Origin, "conflict:") {
				groups[len(groups)-1].conflict = ""
			}
		}
	} else {
		// hand-written mergeable sets for shapes the random stream reaches rarely, in every order
		handSets := [][]string{
			// a value type extended with disjoint fields by two and by three services
			{"type Query { a: Photo }\ntype Photo { url: String }\n", "type Query { b: Photo }\ntype Photo { width: Int height: Int }\n"},
			{"type Query { a: Address }\ntype Address { street: String }\n", "type Query { b: Address }\ntype Address { zip: String }\n", "type Query { c: Address }\ntype Address { city: String country: String }\n"},
			// a shared value type with the same fields everywhere, implementing an interface in one service only
			{"type Query { a: Audit changes: [Stamped] }\ninterface Stamped { at: String }\ntype Audit implements Stamped { at: String by: String }\n", "type Query { b: Audit }\ntype Audit { at: String by: String }\n"},
			{"type Query { a: Money }\ntype Money { amount: Int unit: String }\n", "type Query { b: Money priced: [Priced] }\ninterface Priced { amount: Int }\ntype Money implements Priced { amount: Int unit: String }\n", "type Query { c: Money }\ntype Money { amount: Int unit: String }\n"},
			// the Relay entry point declared by some of the services only (fix of C03-node-lost / C05-node-order)
			{"interface Node { id: ID! }\ntype N0 implements Node { id: ID! a: String }\ntype Query { qa: N0 node(id: ID!): Node }\n", "interface Node { id: ID! }\ntype N0 implements Node { id: ID! b: String }\ntype Query { qb: N0 }\n"},
			{"interface Node { id: ID! }\ntype N0 implements Node { id: ID! a: String }\ntype Query { qa: N0 }\n", "interface Node { id: ID! }\ntype N0 implements Node { id: ID! b: String }\ntype Query { qb: N0 node(id: ID!): Node }\n", "interface Node { id: ID! }\ntype N1 implements Node { id: ID! c: N1 }\ntype Query { qc: N1 }\n"},
		}
		for _, sdls := range handSets {
			hc := mergeCase{Origin: "mergeable"}
			for i, sdl := range sdls {
				hc.SDLs = append(hc.SDLs, sdl)
				hc.URLs = append(hc.URLs, fmt.Sprintf("http://svc%d", i))
			}
			addPerms(hc, "", 6)
		}
		for i := 0; i < nSets; i++ {
			base := gen.Mergeable(rng, gen.Options{MaxServices: 4, Rich: true})
			hide := rng.Intn(3) == 0
			switch prop {
			case "C03", "C04":
				addPerms(setToCase(base, hide, "mergeable"), "", 6)
			case "C05":
				addPerms(setToCase(base, hide, "mergeable"), "", 6)
				for _, k := range gen.ConflictKinds {
					if cs, ok := gen.Conflict(rng, base, k); ok && rng.Intn(2) == 0 {
						addPerms(setToCase(cs, hide, "conflict:"+k), k, 6)
					}
				}
				if i%3 == 0 {
					wr := hx.NewRand(int64(i) + 4242)
					k := gen.WrapperConflictKinds[(i/3)%len(gen.WrapperConflictKinds)]
					if cs, ok := gen.Conflict(wr, base, k); ok {
						addPerms(setToCase(cs, hide, "conflict:"+k), k, 6)
					}
				}
			}
		}
	}
	// listed findings: replay on the real code
	for _, k := range loadKnown(prop) {
		var kc struct {
			Cases []mergeCase `json:"cases"`
			Check string      `json:"check"`
		}
		if json.Unmarshal(k.Input, &kc) != nil {
			continue
		}
		still := false
		switch kc.Check {
		case "c03_oracle":
			o := runMerge(kc.Cases[0])
			still = o.Outcome == "ok" && oracleKnownC03(kc.Cases[0], o) != ""
		case "c03_full_oracle":
			o := runMerge(kc.Cases[0])
			still = o.Outcome == "ok" && oracleC03(kc.Cases[0], o) != ""
		case "types_differ":
			a, b := runMerge(kc.Cases[0]), runMerge(kc.Cases[1])
			still = a.Outcome == "ok" && b.Outcome == "ok" && fmt.Sprint(a.Types) != fmt.Sprint(b.Types) && func() bool {
				qa, qb := findCanon(a.Types, "Query"), findCanon(b.Types, "Query")
				return (findFld(qa, "node") == nil) != (findFld(qb, "node") == nil)
			}()
		case "accepted_conflict":
			o := runMerge(kc.Cases[0])
			still = o.Outcome == "ok"
		case "order_sensitive":
			a, b := runMerge(kc.Cases[0]), runMerge(kc.Cases[1])
			still = (a.Outcome == "ok") != (b.Outcome == "ok")
		}
		if still {
			obs.KnownHit = append(obs.KnownHit, hx.Failure{Key: k.Key, What: k.Key + ": " + k.What})
		} else {
			obs.KnownGone = append(obs.KnownGone, k.Key)
		}
	}
	var coq []string
	distinct := map[string]bool{}
	idx := 0
	for _, g := range groups {
		var outcomes []mergeObs
		for _, c := range g.cases {
			hx.Current(out, idx, c)
			o := runMerge(c)
			if prop == "C04" && o.Outcome == "ok" {
				observeRoutes(c, &o)
				obs.Count("routes_read_through_GetURL", len(o.Routes))
			}
			if o.Outcome == "badinput" {
				obs.Count("generator_invalid_sdl")
				obs.Notes = append(obs.Notes, "invalid generated SDL: "+o.Err)
				continue
			}
			outcomes = append(outcomes, o)
			coq = append(coq, mergeCoqCase(c, o))
			obs.CaseInputs = append(obs.CaseInputs, c)
			obs.Count("outcome_" + strings.Split(o.Outcome, ":")[0])
			obs.Count(fmt.Sprintf("services_%d", len(c.SDLs)))
			if g.conflict != "" {
				obs.Count("conflict_" + g.conflict)
			}
			if len(c.SDLs) >= 2 {
				distinct[strings.Join(c.SDLs, "|")] = true
			}
			what := ""
			if o.Outcome == "panic" {
				what = "merger panicked: " + o.Err
			} else if g.conflict != "" {
				if o.Outcome == "ok" {
					what = fmt.Sprintf("conflicting schemas (%s) were accepted", g.conflict)
				}
			} else if o.Outcome != "ok" {
				if prop == "C05" || prop == "C03" {
					what = "a mergeable set was rejected in this order: " + o.Err
				}
			} else {
				switch prop {
				case "C03":
					what = oracleC03(c, o)
				case "C04":
					what = oracleC04(c, o)
				}
			}
			if what != "" {
				obs.Fail(idx, what, c)
			}
			if idx%37 == 3 && len(obs.Samples) < 4 {
				obs.Samples = append(obs.Samples, map[string]interface{}{"sdl": c.SDLs, "urls": c.URLs, "hide_node_merger": c.Hide, "origin": c.Origin, "outcome": o.Outcome, "error": o.Err, "routing_table": o.TM})
			}
			idx++
		}
		// order independence within the group (C05; also required of C03's "in every order")
		if (prop == "C05" || prop == "C03") && len(outcomes) > 1 {
			first := outcomes[0]
			for k, o := range outcomes[1:] {
				if (o.Outcome == "ok") != (first.Outcome == "ok") {
					obs.Fail(idx-1, fmt.Sprintf("acceptance depends on service order: %q vs %q", first.Outcome+" "+first.Err, o.Outcome+" "+o.Err), g.cases[k+1])
					break
				}
				if o.Outcome == "ok" && prop == "C05" {
					if typesKey(o.Types) != typesKey(first.Types) {
						obs.Fail(idx-1, "the resulting set of types/fields depends on service order", g.cases[k+1])
						break
					}
					if nodeRoutesKey(o) != nodeRoutesKey(first) {
						obs.Fail(idx-1, "Node-field routes depend on service order", g.cases[k+1])
						break
					}
				}
			}
		}
	}
	obs.Evaluations = idx
	obs.DistinctNontrivial = len(distinct)
	obs.Rule = "generated mergeable sets of 1-4 service schemas (Node types split across services, shared identical/disjoint value types, enums, unions, interfaces, inputs, scalars, arguments with defaults), each in up to 6 orders of the service list, default and node-hiding merger; for C05 additionally conflict-introducing edits; non-trivial = at least 2 services, distinct by the ordered SDL texts"
	hx.WriteCases(out, "From Pebbles Require Import Merge.Model Corr.Merge.\nFrom Coq Require Import List String. Import ListNotations.\nOpen Scope string_scope.\n", "mcase", coq, "mismatches")
	obs.Write(out)
}

// the C03 oracle including the Relay entry point, used only to replay the listed finding
func oracleKnownC03(c mergeCase, o mergeObs) string {
	if c.Hide {
		return ""
	}
	q := findCanon(o.Types, "Query")
	for _, in := range o.Inputs {
		if d := findCanon(in, "Query"); d != nil {
			if f := findFld(d, "node"); f != nil && isNodeFld(*f) {
				if q == nil || findFld(q, "node") == nil {
					return "Query.node declared by a service is missing from the gateway schema"
				}
			}
		}
	}
	return ""
}
