package main

import (
	"fmt"
	"sort"
	"strings"

	"github.com/buildbuildio/pebbles/planner"
	"github.com/buildbuildio/pebbles/requests"
	"github.com/vektah/gqlparser/v2"
	"github.com/vektah/gqlparser/v2/ast"
	"github.com/vektah/gqlparser/v2/parser"

	"verif/harness/coqprint"
	"verif/harness/fake"
	"verif/harness/gen"
	"verif/harness/hx"
)

func init() { drivers["C02"] = driveC02 }

// handWorld: a small fixed federation used to replay listed findings.
func handWorld() *gen.World {
	w := &gen.World{Store: fake.NewStore(), NodeType: []string{"Human", "Pet"}, Unions: map[string][]string{}}
	node := &gen.Def{Kind: "INTERFACE", Name: "Node", Fields: []gen.Field{{Name: "id", Type: "ID!"}}}
	a := &gen.Service{URL: "http://a", Defs: []*gen.Def{node,
		{Kind: "OBJECT", Name: "Human", Ifaces: []string{"Node"}, Fields: []gen.Field{{Name: "id", Type: "ID!"}, {Name: "name", Type: "String", Args: []gen.Arg{{Name: "a", Type: "Int"}}}, {Name: "friend", Type: "Human"}, {Name: "pets", Type: "[Pet!]!"}}},
		{Kind: "OBJECT", Name: "Pet", Ifaces: []string{"Node"}, Fields: []gen.Field{{Name: "id", Type: "ID!"}, {Name: "kind", Type: "String"}}},
		{Kind: "OBJECT", Name: "Query", Fields: []gen.Field{{Name: "humans", Type: "[Human!]!"}, {Name: "me", Type: "Human"}, {Name: "x", Type: "String"}, {Name: "beings", Type: "[Being!]!"}, {Name: "node", Args: []gen.Arg{{Name: "id", Type: "ID!"}}, Type: "Node"}}},
		{Kind: "OBJECT", Name: "Mutation", Fields: []gen.Field{{Name: "x", Type: "String"}}},
		{Kind: "UNION", Name: "Being", UTypes: []string{"Human", "Pet"}},
	}}
	node2 := &gen.Def{Kind: "INTERFACE", Name: "Node", Fields: []gen.Field{{Name: "id", Type: "ID!"}}}
	b := &gen.Service{URL: "http://b", Defs: []*gen.Def{node2,
		{Kind: "OBJECT", Name: "Human", Ifaces: []string{"Node"}, Fields: []gen.Field{{Name: "id", Type: "ID!"}, {Name: "phone", Type: "String", Args: []gen.Arg{{Name: "a", Type: "Int"}}}}},
		{Kind: "OBJECT", Name: "Pet", Ifaces: []string{"Node"}, Fields: []gen.Field{{Name: "id", Type: "ID!"}, {Name: "owner", Type: "Human"}, {Name: "weight", Type: "Int"}}},
		{Kind: "OBJECT", Name: "Query", Fields: []gen.Field{{Name: "pets", Type: "[Pet!]!"}, {Name: "node", Args: []gen.Arg{{Name: "id", Type: "ID!"}}, Type: "Node"}}},
	}}
	w.Services = []*gen.Service{a, b}
	ent := func(id, t string, f map[string]fake.Val) {
		f["id"] = fake.Str(id)
		w.Store.Entities[id] = &fake.Obj{Type: t, Fields: f}
	}
	ent("h1", "Human", map[string]fake.Val{"name": fake.Str("Ann"), "phone": fake.Str("111"), "friend": fake.Ref("h2"), "pets": fake.List(fake.Ref("p1"), fake.Ref("p2"))})
	ent("h2", "Human", map[string]fake.Val{"name": fake.Str("Bob"), "phone": fake.Str("222"), "friend": fake.Null(), "pets": fake.List()})
	ent("p1", "Pet", map[string]fake.Val{"kind": fake.Str("cat"), "owner": fake.Ref("h1"), "weight": fake.Int(4)})
	ent("p2", "Pet", map[string]fake.Val{"kind": fake.Str("dog"), "owner": fake.Ref("h1"), "weight": fake.Int(9)})
	w.Store.Roots["Query"]["humans"] = fake.List(fake.Ref("h1"), fake.Ref("h2"))
	w.Store.Roots["Query"]["me"] = fake.Ref("h1")
	w.Store.Roots["Query"]["beings"] = fake.List(fake.Ref("h1"), fake.Ref("p1"), fake.Ref("h2"))
	w.Store.Roots["Query"]["x"] = fake.Str("query-x")
	w.Store.Roots["Query"]["pets"] = fake.List(fake.Ref("p1"), fake.Ref("p2"))
	w.Store.Roots["Mutation"]["x"] = fake.Str("mutation-x")
	return w
}

// handWorldPayload: the hand-written federation plus a mutation whose payload gives access to the query root again
// (the Relay convention `query: Query`), declared by service a.
func handWorldPayload() *gen.World {
	w := handWorld()
	a := w.Services[0]
	a.Defs = append(a.Defs, &gen.Def{Kind: "OBJECT", Name: "Payload", Fields: []gen.Field{{Name: "ok", Type: "String"}, {Name: "query", Type: "Query"}}})
	a.Def("Mutation").Fields = append(a.Def("Mutation").Fields, gen.Field{Name: "doIt", Type: "Payload"})
	w.Store.Roots["Mutation"]["doIt"] = fake.Val{Kind: fake.VObj, Obj: &fake.Obj{Type: "Payload", Fields: map[string]fake.Val{
		"ok":    fake.Str("yes"),
		"query": {Kind: fake.VObj, Obj: &fake.Obj{Type: "Query", Fields: w.Store.Roots["Query"]}},
	}}}
	return w
}

// handWorldMatrix: the hand-written federation plus Human.matrix: [[Pet!]!] (a list of lists of a Node type) in service a.
func handWorldMatrix() *gen.World {
	w := handWorld()
	h := w.Services[0].Def("Human")
	h.Fields = append(h.Fields, gen.Field{Name: "matrix", Type: "[[Pet!]!]"})
	w.Store.Entities["h1"].Fields["matrix"] = fake.List(fake.List(fake.Ref("p1"), fake.Ref("p2")), fake.List(fake.Ref("p2")))
	w.Store.Entities["h2"].Fields["matrix"] = fake.List()
	return w
}

type c02Case struct {
	WorldSeed int64      `json:"world_seed"`
	Domain    string     `json:"world_domain,omitempty"` // "" = inD01, "inputs" = string fields taking filter: [FilterIn!]
	OpSeed    int64      `json:"op_seed"`
	Op        *gen.GenOp `json:"operation,omitempty"`
	Hand      bool       `json:"hand_world,omitempty"`
}

func subrequestProblems(logs []fake.LoggedRequest) string {
	for _, l := range logs {
		if l.Invalid != "" {
			return fmt.Sprintf("sub-request sent to %s is rejected by that service: %s  --  %s  variables %s", l.URL, l.Invalid, shortStr(l.Query, 200), fake.CanonJSON(l.Variables))
		}
	}
	return ""
}

// effectiveVariables: the values the client sent plus, for every variable it left out, the default its operation
// declares (what C02 asks every sub-request that uses the variable to be accompanied by).
func effectiveVariables(op gen.GenOp) map[string]interface{} {
	out := map[string]interface{}{}
	for k, v := range op.Variables {
		out[k] = v
	}
	doc, err := parser.ParseQuery(&ast.Source{Input: op.Query})
	if err != nil {
		return out
	}
	o := doc.Operations.ForName(op.OperationName)
	if o == nil && len(doc.Operations) == 1 {
		o = doc.Operations[0]
	}
	if o == nil {
		return out
	}
	for _, vd := range o.VariableDefinitions {
		if _, sent := out[vd.Variable]; sent || vd.DefaultValue == nil {
			continue
		}
		if v, err := vd.DefaultValue.Value(nil); err == nil {
			out[vd.Variable] = v
		}
	}
	return out
}

// missingVariables: every client variable a sub-request uses and the client sent a value for — null included — or
// declared a default for accompanies that sub-request, with that value.
func missingVariables(op gen.GenOp, logs []fake.LoggedRequest) string {
	eff := effectiveVariables(op)
	for _, l := range logs {
		doc, err := parser.ParseQuery(&ast.Source{Input: l.Query})
		if err != nil || len(doc.Operations) != 1 {
			continue
		}
		for _, vd := range doc.Operations[0].VariableDefinitions {
			if vd.Variable == "id" {
				continue
			}
			want, sent := eff[vd.Variable]
			if !sent {
				continue
			}
			if got, has := l.Variables[vd.Variable]; !has || fake.CanonJSON(got) != fake.CanonJSON(want) {
				return fmt.Sprintf("sub-request to %s declares and uses $%s, the client sent or declared %s for it, but the sub-request carries %v for it  --  %s  variables %s",
					l.URL, vd.Variable, fake.CanonJSON(want), got, shortStr(l.Query, 200), fake.CanonJSON(l.Variables))
			}
		}
	}
	return ""
}

func stepsCoq(r *Rig, op gen.GenOp, logs []fake.LoggedRequest) []string {
	doc, errs := gqlparser.LoadQuery(r.Merged, op.Query)
	if errs != nil {
		return nil
	}
	var o *ast.OperationDefinition
	if op.OperationName != "" {
		o = doc.Operations.ForName(op.OperationName)
	} else if len(doc.Operations) == 1 {
		o = doc.Operations[0]
	}
	if o == nil {
		return nil
	}
	var sp planner.SequentialPlanner
	plan, err := sp.Plan(&planner.PlanningContext{Operation: o, Request: &requests.Request{Query: op.Query, Variables: op.Variables}, Schema: r.Merged, TypeURLMap: r.TM})
	if err != nil {
		return nil
	}
	var out []string
	cv := "[]"
	if ev := effectiveVariables(op); len(ev) > 0 {
		cv = jsonObjToCoq(ev) // what the client sent plus the declared defaults of what it left out
	}
	var walk func(s *planner.QueryPlanStep)
	walk = func(s *planner.QueryPlanStep) {
		listed := planner.VerifGetVariablesList(s.SelectionSet)
		ls := make([]string, len(listed))
		for i, x := range listed {
			ls[i] = coqprint.CoqStr(x)
		}
		fw := "None"
		for _, l := range logs {
			if l.URL == s.URL && strings.Join(strings.Fields(l.Query), " ") == strings.Join(strings.Fields(s.QueryString), " ") {
				vars := map[string]interface{}{}
				for k, v := range l.Variables {
					if k != "id" {
						vars[k] = v
					}
				}
				fw = "(Some " + jsonObjToCoq(vars) + ")"
				break
			}
		}
		names := map[string]bool{}
		tsels := coqprint.TSelectionSet(s.SelectionSet, names)
		hdr := "[]"
		if qd, perr := parser.ParseQuery(&ast.Source{Input: s.QueryString}); perr == nil && len(qd.Operations) == 1 {
			var hs []string
			for _, vd := range qd.Operations[0].VariableDefinitions {
				hs = append(hs, "("+coqprint.CoqStr(vd.Variable)+", "+coqprint.CoqStr(vd.Type.String())+")")
			}
			hdr = "[" + strings.Join(hs, "; ") + "]"
		} else {
			hdr = "[(\"<the step's QueryString does not parse>\", \"\")]"
		}
		out = append(out, fmt.Sprintf("CStep (mkCase %s [%s] %s %s\n    %s\n    %s\n    %s)", coqprint.SelectionSet(s.SelectionSet), strings.Join(ls, "; "), cv, fw,
			coqprint.HeaderTypes(r.Merged, names), tsels, hdr))
		for _, t := range s.Then {
			walk(t)
		}
	}
	for _, s := range plan.RootSteps {
		walk(s)
	}
	return out
}

// wholePlanCoq: the sanitized selection set (from one parse of the operation), the table and schema facts the planner
// reads, and the root steps the real planner makes of a second parse.
func wholePlanCoq(r *Rig, op gen.GenOp) (string, bool) {
	o1 := selectedOp(r.Merged, op)
	o2 := selectedOp(r.Merged, op)
	if o1 == nil || o2 == nil {
		return "", false
	}
	parent := "Query"
	switch o1.Operation {
	case ast.Mutation:
		parent = "Mutation"
	case ast.Subscription:
		parent = "Subscription"
	}
	ctx1 := &planner.PlanningContext{Operation: o1, Request: &requests.Request{Query: op.Query, Variables: op.Variables}, Schema: r.Merged, TypeURLMap: r.TM}
	sanitized, _ := planner.VerifSanitize(ctx1, o1.SelectionSet)
	input := coqprint.PSels(sanitized)
	var sp planner.SequentialPlanner
	obs := "None"
	plan, err := sp.Plan(&planner.PlanningContext{Operation: o2, Request: &requests.Request{Query: op.Query, Variables: op.Variables}, Schema: r.Merged, TypeURLMap: r.TM})
	if err == nil {
		obs = "(Some " + coqprint.PSteps(plan.RootSteps) + ")"
	}
	urls := append([]string{}, r.TM.GetURLs()...)
	sort.Strings(urls)
	us := make([]string, len(urls))
	for i, u := range urls {
		us[i] = coqprint.CoqStr(u)
	}
	return fmt.Sprintf("CPlan (mkPlan %s\n    %s\n    [%s] %s\n    %s\n    %s)", coqprint.TMap(r.TM), coqprint.PSchema(r.Merged), strings.Join(us, "; "), coqprint.CoqStr(parent), input, obs), true
}

// sanitizeCoq: the client's selection set as parsed (printed BEFORE the sanitizer edits it in place), what the real
// sanitizer makes of it, and the helper fields it registers. Operations that spread one fragment definition more than
// once are left out (the sanitizer edits the shared definition: listed finding C01-fragment-spread-twice).
func sanitizeCoq(r *Rig, op gen.GenOp) (string, bool) {
	o := selectedOp(r.Merged, op)
	if o == nil {
		return "", false
	}
	spreads := map[string]int{}
	input := coqprint.SSels(o.SelectionSet, spreads)
	for _, n := range spreads {
		if n > 1 {
			return "", false
		}
	}
	ctx := &planner.PlanningContext{Operation: o, Request: &requests.Request{Query: op.Query, Variables: op.Variables}, Schema: r.Merged, TypeURLMap: r.TM}
	res, sf := planner.VerifSanitize(ctx, o.SelectionSet)
	return fmt.Sprintf("CSan (mkSan %s\n    %s\n    %s\n    %s\n    %s)", coqprint.TMap(r.TM), coqprint.SSchema(r.Merged), input, coqprint.SSels(res, nil), coqprint.Scrub(sf)), true
}

func driveC02(seed int64, tier, out, replay string) {
	rng := hx.NewRand(seed)
	obs := hx.NewObs("C02", seed, tier)
	nWorlds, per := 20, 12
	if tier == "thorough" {
		nWorlds, per = 200, 30
	}
	var cases []c02Case
	if replay != "" {
		cases = loadReplayCases[c02Case](replay)
	} else {
		for i := 0; i < nWorlds; i++ {
			ws := rng.Int63()
			for j := 0; j < per; j++ {
				c := c02Case{WorldSeed: ws, OpSeed: rng.Int63()}
				if i%3 == 1 {
					c.Domain = "inputs"
				}
				if i%3 == 2 {
					c.Domain = "ifaces"
				}
				cases = append(cases, c)
			}
		}
	}
	// listed findings, replayed on the hand-written federation
	hand, herr := NewRig(handWorld(), RigConfig{})
	for _, k := range loadKnown("C02") {
		if herr != nil {
			break
		}
		var kc struct {
			Op    gen.GenOp `json:"operation"`
			Check string    `json:"check"`
		}
		if jsonUnmarshal(k.Input, &kc) != nil {
			continue
		}
		hand.ResetLogs()
		what, _ := compareFed(hand, kc.Op)
		still := subrequestProblems(hand.Logs()) != "" || (what != "" && !strings.HasPrefix(what, "skip:"))
		if still {
			obs.KnownHit = append(obs.KnownHit, hx.Failure{Key: k.Key, What: k.Key + ": " + k.What})
		} else {
			obs.KnownGone = append(obs.KnownGone, k.Key)
		}
	}
	var coq []string
	distinct := map[string]bool{}
	rigs := map[string]*Rig{}
	idx := 0
	for _, c := range cases {
		var r *Rig
		if c.Hand {
			r = hand
		} else {
			dom := c.Domain
			if dom == "" {
				dom = "inD01"
			}
			var ok bool
			rk := fmt.Sprint(c.WorldSeed, dom)
			r, ok = rigs[rk]
			if !ok {
				var err error
				r, err = NewRig(worldFor(c.WorldSeed, dom), RigConfig{})
				if err != nil {
					r = nil
				}
				rigs[rk] = r
			}
		}
		if r == nil {
			continue
		}
		var op gen.GenOp
		if c.Op != nil {
			op = *c.Op
		} else {
			oo := opOptionsFor("inD01", r.World)
			oo.NullVars = true
			op = gen.Operation(hx.NewRand(c.OpSeed), r.Merged, oo)
			c.Op = &op
		}
		hx.Current(out, idx, c)
		what, _ := compareFed(r, op)
		if strings.HasPrefix(what, "skip:") {
			continue
		}
		logs := r.Logs()
		w2 := subrequestProblems(logs)
		if w2 == "" {
			w2 = missingVariables(op, logs)
		}
		if w2 != "" {
			what = w2
		} else if what != "" {
			what = "coverage / helper registration (through the single-server comparison): " + what
		}
		if what != "" {
			obs.Fail(idx, what, c)
		}
		lines := stepsCoq(r, op, logs)
		coq = append(coq, lines...)
		for range lines {
			obs.CaseInputs = append(obs.CaseInputs, c)
		}
		if pl, ok := wholePlanCoq(r, op); ok {
			coq = append(coq, pl)
			obs.CaseInputs = append(obs.CaseInputs, c)
			obs.Count("whole_plans_compared_with_the_model")
		}
		if sl, ok := sanitizeCoq(r, op); ok {
			coq = append(coq, sl)
			obs.CaseInputs = append(obs.CaseInputs, c)
			obs.Count("sanitizer_runs_compared_with_the_model")
		}
		obs.Count(fmt.Sprintf("steps_%d", len(lines)))
		if len(op.Variables) > 0 {
			obs.Count("with_client_variables")
		}
		for _, f := range op.Features {
			if strings.HasPrefix(f, "input_object") || strings.HasPrefix(f, "variable_inside") || f == "custom_scalar_argument" {
				obs.Count("op_" + f)
			}
		}
		if len(lines) >= 2 {
			distinct[fmt.Sprint(c.WorldSeed, op.Query)] = true
		}
		if idx%41 == 3 && len(obs.Samples) < 4 {
			obs.Samples = append(obs.Samples, map[string]interface{}{"operation": op, "subrequests": fake.SortedLog(logs)})
		}
		idx++
	}
	// "wild" operations: fragments that repeat or widen the type, nested in each other, interface-typed fields —
	// model and code only (sanitizer, planner, header); end to end several of these shapes are listed findings
	if replay == "" {
		wrng := hx.NewRand(seed + 77)
		nw := 120
		if tier == "thorough" {
			nw = 2500
		}
		var wr *Rig
		for i := 0; i < nw; i++ {
			if i%10 == 0 {
				wopt := gen.DefaultWorldOptions()
				wopt.Interfaces = true
				wopt.UnionBias = i%20 == 0
				if nr, err := NewRig(gen.NewWorld(hx.NewRand(wrng.Int63()), wopt), RigConfig{}); err == nil {
					wr = nr
				}
			}
			if wr == nil {
				continue
			}
			oo := opOptionsFor("inD01", wr.World)
			oo.Wild, oo.UnevenIDs, oo.HelperNextToFragment = true, i%2 == 0, true
			op := gen.Operation(hx.NewRand(wrng.Int63()), wr.Merged, oo)
			wc := c02Case{Op: &op, Domain: "wild"}
			if pl, ok := wholePlanCoq(wr, op); ok {
				coq = append(coq, pl)
				obs.CaseInputs = append(obs.CaseInputs, wc)
			}
			if sl, ok := sanitizeCoq(wr, op); ok {
				coq = append(coq, sl)
				obs.CaseInputs = append(obs.CaseInputs, wc)
				obs.Count("wild_operations_through_the_sanitizer_and_planner_models")
			}
		}
	}
	// shapes the generator does not write, on the hand-written federation: model and code only (some of them are
	// listed findings end to end) — fragments on interfaces, on the enclosing type, nested, next to helpers
	if herr == nil && replay == "" {
		for _, q := range []string{
			`{ beings { ... on Node { id } } }`,
			`{ beings { __typename ... on Node { id } ... on Human { name } } }`,
			`{ me { ... on Node { id } name } }`,
			`{ me { ... on Human { name phone } ... on Human { friend { phone } } } }`,
			`{ me { id ... on Human { id name } } }`,
			`{ node(id: "h1") { ... on Node { id } ... on Human { name } } }`,
			`{ humans { pets { ... on Node { id } kind weight } } }`,
			`{ beings { ... on Being { ... on Pet { weight } } } }`,
			`{ beings { ... on Human { friend { ... on Human { phone } } } ... on Pet { owner { name } } } }`,
			`{ me { __typename friend { __typename id phone } } }`,
			`{ a: me { name } a: me { phone } }`,
			`{ me { pets { id } pets { weight } } }`,
			`{ me { pets { id } } me { pets { weight } } }`,
			`{ me { friend { id name } } me { friend { phone } } }`,
			// helpers the client selects himself through fragments (fix 75235b9), both helpers on one level (2e934d6),
			// a fragment on an interface inside a union (the union fix)
			`{ beings { ... on Node { __typename } } }`,
			`{ beings { ... on Human { name __typename } ... on Node { id } } }`,
			`{ me { ... on Human { name } ... on Node { uid: id } } }`,
			`{ me { ... on Human @include(if: true) { id } ... on Node { __typename } phone } }`,
			`{ beings { ... on Node { ... on Node { id } } ... on Being { __typename } } }`,
			// variables in directives of fields and of fragments (fix 0156dcf; the first one formerly the listed finding
			// C02-directive-variable); the values are in handVars
			`query($s: Boolean!){ me { name phone @skip(if: $s) } }`,
			`query($s: Boolean = true, $t: Boolean!){ me { name friend @include(if: $s) { phone @skip(if: $t) name } } }`,
			`query($s: Boolean!){ beings { ... on Pet @skip(if: $s) { kind weight } ... on Human { name } } }`,
			`query($s: Boolean!, $a: Int){ beings { ... on Human @include(if: $s) { phone(a: $a) } ... on Pet { owner { name @skip(if: $s) } } } }`,
		} {
			op := gen.GenOp{Query: q, Kind: "query"}
			if strings.Contains(q, "$s") {
				op.Variables = map[string]interface{}{"s": len(q)%2 == 0, "t": false, "a": 3}
				if !strings.Contains(q, "$t") {
					delete(op.Variables, "t")
				}
				if !strings.Contains(q, "$a") {
					delete(op.Variables, "a")
				}
			}
			hc := c02Case{Hand: true, Op: &op}
			if len(op.Variables) > 0 {
				// these go through the gateway as well: every sub-request valid for its service, variables accompanied
				hand.ResetLogs()
				what, _ := compareFed(hand, op)
				if w2 := subrequestProblems(hand.Logs()); w2 != "" {
					what = w2
				} else if w3 := missingVariables(op, hand.Logs()); w3 != "" {
					what = w3
				}
				if what != "" && !strings.HasPrefix(what, "skip:") {
					obs.Fail(idx, what, hc)
				}
				for _, sc := range stepsCoq(hand, op, hand.Logs()) {
					coq = append(coq, sc)
					obs.CaseInputs = append(obs.CaseInputs, hc)
				}
			}
			if pl, ok := wholePlanCoq(hand, op); ok {
				coq = append(coq, pl)
				obs.CaseInputs = append(obs.CaseInputs, hc)
			}
			if sl, ok := sanitizeCoq(hand, op); ok {
				coq = append(coq, sl)
				obs.CaseInputs = append(obs.CaseInputs, hc)
				obs.Count("hand_written_shapes_through_the_sanitizer_and_planner_models")
			}
		}
	}
	obs.Evaluations = idx
	obs.DistinctNontrivial = len(distinct)
	obs.Rule = "generated worlds x generated valid operations (arguments with literals and variables, nested fragments, aliases); every sub-request is parsed, validated against the RECEIVING service's own schema and has its variables coerced by that service (evaluating fakes); every plan step's selection set, VariablesList and forwarded variables are compared with the model; coverage and helper registration through the single-server comparison; non-trivial = plan has at least 2 steps"
	hx.WriteCases(out, "From Pebbles Require Import Base.Json Plan.Vars Plan.Header Merge.Model Plan.Steps Plan.Sanitize Corr.C02.\nFrom Coq Require Import List String. Import ListNotations.\nOpen Scope string_scope.\n", "c2", coq, "mismatches")
	obs.Write(out)
}
