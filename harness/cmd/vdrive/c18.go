package main

import (
	"fmt"
	"math/rand"
	"runtime"
	"strings"
	"sync"
	"time"

	"github.com/buildbuildio/pebbles/requests"

	"verif/harness/fake"
	"verif/harness/gen"
	"verif/harness/hx"
)

func init() { drivers["C18"] = driveC18 }

// one teardown scenario: a connection with a few subscriptions, then a race between client and upstream actions
type c18Case struct {
	WorldSeed int64    `json:"world_seed"`
	Subs      int      `json:"subscriptions"`
	Race      []string `json:"racing_actions"` // performed concurrently: stop | complete | event | error_msg | drop_upstream | terminate | disconnect | malformed | incomplete | unknown_type | stop_unknown | start_duplicate_id
	Warmup    int      `json:"events_before"`
	Repeat    int      `json:"repetitions"`
	// Heartbeat: instead of a race, one event whose frame is held back on the wire (between header and payload)
	// for longer than the heartbeat period: the keep-alive must wait for the frame to be complete
	Heartbeat bool `json:"heartbeat_during_a_stalled_write,omitempty"`
	// StopBusy: stop arrives while Listen is in the middle of writing a frame (held back on the wire for 300 ms)
	StopBusy bool `json:"stop_while_listener_is_writing,omitempty"`
	// Storm: events pushed back to back (every other one carrying errors), then a stop while they are
	// still being delivered: what is delivered before the teardown takes effect must be the emitted events,
	// one by one, each with its own errors
	Storm int `json:"events_back_to_back_then_stop,omitempty"`
}

// runStorm: teardown in the middle of a busy stream. The process stays up, frames are whole, the i-th data frame
// is the i-th emitted event (its own `errors`, nobody else's), the upstream connection gets closed.
func runStorm(c c18Case) string {
	w := subWorld(c.WorldSeed)
	r, err := NewRig(w, RigConfig{Subs: true})
	if err != nil || r.Merged.Subscription == nil {
		return "skip: no subscriptions in this world"
	}
	defer r.Close()
	rng := hx.NewRand(c.WorldSeed + 7)
	cl, err := fake.DialGateway(r.GWSrv.URL)
	if err != nil {
		return "cannot connect: " + err.Error()
	}
	defer cl.Drop()
	cl.Send(map[string]interface{}{"type": requests.SubConnectionInit})
	if f, ok := cl.Next(3 * time.Second); !ok || f.Msg["type"] != requests.SubConnectionAck {
		return fmt.Sprintf("no connection_ack: %+v", f)
	}
	op, field, ok := simpleSubOp(w, r, rng)
	if !ok {
		return "skip: no owner"
	}
	payload := map[string]interface{}{"query": op.Query}
	if op.Variables != nil {
		payload["variables"] = op.Variables
	}
	if op.OperationName != "" {
		payload["operationName"] = op.OperationName
	}
	cl.Send(map[string]interface{}{"type": requests.SubStart, "id": "s", "payload": payload})
	up := r.Ups[w.SubOwner[field]].Accept(3 * time.Second)
	if up == nil {
		return "subscription not started upstream: " + op.Query
	}
	owner := r.Services[w.SubOwner[field]]
	data, errs, _ := owner.Answer(up.Start, 0)
	if errs != nil {
		return "skip: owner rejects"
	}
	go func() {
		for i := 0; i < c.Storm; i++ {
			if i%2 == 0 {
				up.Data(data, []interface{}{map[string]interface{}{"message": fmt.Sprintf("event %d failed in part", i)}})
			} else {
				up.Data(data, nil)
			}
		}
	}()
	seen := 0
	stopAt := 2 + rng.Intn(c.Storm/2+1)
	stopped := false
	for {
		f, ok := cl.Next(1500 * time.Millisecond)
		if !ok {
			break
		}
		if f.Err != "" {
			return "after a stop in the middle of a stream the client reads a frame that is not one JSON message: " + f.Err
		}
		if f.Msg == nil || f.Msg["type"] != requests.SubData {
			continue
		}
		pl, _ := f.Msg["payload"].(map[string]interface{})
		es, _ := pl["errors"].([]interface{})
		hasErrs := len(es) > 0
		if wantErrs := seen%2 == 0; hasErrs != wantErrs {
			return fmt.Sprintf("data frame %d of a busy subscription: the emitted event %d carried errors=%v, the delivered frame carries errors=%v (%s)", seen, seen, wantErrs, hasErrs, shortStr(fake.CanonJSON(pl["errors"]), 160))
		}
		seen++
		if seen == stopAt && !stopped {
			stopped = true
			cl.Send(map[string]interface{}{"type": requests.SubStop, "id": "s"})
		}
	}
	if !stopped {
		cl.Send(map[string]interface{}{"type": requests.SubStop, "id": "s"})
	}
	if !up.WaitClosed(3 * time.Second) {
		return "a stop in the middle of a busy stream never took effect: the upstream connection is still open after 3s"
	}
	return ""
}

// runStopBusy: the stop must still take effect once the write is through: upstream connection closed, goroutines gone
func runStopBusy(c c18Case) string {
	w := subWorld(c.WorldSeed)
	r, err := NewRig(w, RigConfig{Subs: true, StallMs: 300})
	if err != nil || r.Merged.Subscription == nil {
		return "skip: no subscriptions in this world"
	}
	defer r.Close()
	rng := hx.NewRand(c.WorldSeed + 7)
	cl, err := fake.DialGateway(r.GWSrv.URL)
	if err != nil {
		return "cannot connect: " + err.Error()
	}
	defer cl.Drop()
	cl.Send(map[string]interface{}{"type": requests.SubConnectionInit})
	if f, ok := cl.Next(3 * time.Second); !ok || f.Msg["type"] != requests.SubConnectionAck {
		return fmt.Sprintf("no connection_ack: %+v", f)
	}
	op, field, ok := simpleSubOp(w, r, rng)
	if !ok {
		return "skip: no owner"
	}
	payload := map[string]interface{}{"query": op.Query}
	if op.Variables != nil {
		payload["variables"] = op.Variables
	}
	if op.OperationName != "" {
		payload["operationName"] = op.OperationName
	}
	id := "a-subscription-with-a-long-identifier-so-that-the-frame-is-long"
	cl.Send(map[string]interface{}{"type": requests.SubStart, "id": id, "payload": payload})
	up := r.Ups[w.SubOwner[field]].Accept(3 * time.Second)
	if up == nil {
		return "subscription not started upstream: " + op.Query
	}
	owner := r.Services[w.SubOwner[field]]
	data, errs, _ := owner.Answer(up.Start, 0)
	if errs != nil {
		return "skip: owner rejects"
	}
	up.Data(data, nil)
	time.Sleep(60 * time.Millisecond) // Listen is now inside the held-back write
	cl.Send(map[string]interface{}{"type": requests.SubStop, "id": id})
	if !up.WaitClosed(3 * time.Second) {
		return "a stop that arrived while the listener was writing a frame never took effect: the upstream connection is still open after 3s"
	}
	return ""
}

// runHeartbeat: every frame the client reads must be one whole message, a data frame and at least one ka among them
func runHeartbeat(c c18Case) string {
	w := subWorld(c.WorldSeed)
	r, err := NewRig(w, RigConfig{Subs: true, StallMs: 4400})
	if err != nil || r.Merged.Subscription == nil {
		return "skip: no subscriptions in this world"
	}
	defer r.Close()
	rng := hx.NewRand(c.WorldSeed + 7)
	cl, err := fake.DialGateway(r.GWSrv.URL)
	if err != nil {
		return "cannot connect: " + err.Error()
	}
	defer cl.Drop()
	cl.Send(map[string]interface{}{"type": requests.SubConnectionInit})
	if f, ok := cl.Next(3 * time.Second); !ok || f.Msg["type"] != requests.SubConnectionAck {
		return fmt.Sprintf("no connection_ack: %+v", f)
	}
	op, field, ok := simpleSubOp(w, r, rng)
	if !ok {
		return "skip: no owner"
	}
	payload := map[string]interface{}{"query": op.Query}
	if op.Variables != nil {
		payload["variables"] = op.Variables
	}
	if op.OperationName != "" {
		payload["operationName"] = op.OperationName
	}
	cl.Send(map[string]interface{}{"type": requests.SubStart, "id": "a-subscription-with-a-long-identifier-so-that-the-frame-is-long", "payload": payload})
	up := r.Ups[w.SubOwner[field]].Accept(3 * time.Second)
	if up == nil {
		return "subscription not started upstream: " + op.Query
	}
	owner := r.Services[w.SubOwner[field]]
	data, errs, _ := owner.Answer(up.Start, 0)
	if errs != nil {
		return "skip: owner rejects"
	}
	up.Data(data, nil)
	gotData, gotKA := false, false
	deadline := time.After(9 * time.Second)
	for !(gotData && gotKA) {
		select {
		case f := <-cl.Frames:
			if f.BadJSON {
				return fmt.Sprintf("a frame held back on the wire was torn: the client read %q", shortStr(f.Raw, 200))
			}
			if f.Close {
				return "the client's websocket stream broke while a frame was held back on the wire across a heartbeat: " + f.Err
			}
			switch f.Msg["type"] {
			case requests.SubData:
				gotData = true
			case requests.SubConnectionKeepAlive:
				gotKA = true
			}
		case <-deadline:
			return fmt.Sprintf("within 9s: data frame received=%v, keep-alive received=%v", gotData, gotKA)
		}
	}
	return ""
}

func simpleSubOp(w *gen.World, r *Rig, rng *rand.Rand) (gen.GenOp, string, bool) {
	oo := opOptionsFor("inD01", w)
	oo.ForceSubscription = true
	oo.Mutation = false
	oo.MaxDepth = 2
	op := gen.Operation(rng, r.Merged, oo)
	f := rootFieldOf(r.Merged, op.Query)
	_, ok := w.SubOwner[f]
	return op, f, ok
}

func runC18(c c18Case, obs *hx.Obs, traces *[]entryTrace) string {
	tr := newSubTracer()
	defer func() {
		tr.stop()
		*traces = tr.snapshot()
	}()
	w := subWorld(c.WorldSeed)
	r, err := NewRig(w, RigConfig{Subs: true})
	if err != nil || r.Merged.Subscription == nil {
		return "skip: no subscriptions in this world"
	}
	defer r.Close()
	rng := hx.NewRand(c.WorldSeed + 7)
	base := runtime.NumGoroutine()
	for rep := 0; rep < c.Repeat; rep++ {
		cl, err := fake.DialGateway(r.GWSrv.URL)
		if err != nil {
			return "cannot connect: " + err.Error()
		}
		cl.Send(map[string]interface{}{"type": requests.SubConnectionInit})
		if f, ok := cl.Next(3 * time.Second); !ok || f.Msg["type"] != requests.SubConnectionAck {
			return fmt.Sprintf("no connection_ack: %+v", f)
		}
		type live struct {
			id    string
			up    *fake.UpConn
			field string
			op    gen.GenOp
		}
		var subs []live
		for i := 0; i < c.Subs; i++ {
			op, field, ok := simpleSubOp(w, r, rng)
			if !ok {
				return "skip: no owner"
			}
			id := fmt.Sprintf("s%d", i)
			payload := map[string]interface{}{"query": op.Query}
			if op.Variables != nil {
				payload["variables"] = op.Variables
			}
			if op.OperationName != "" {
				payload["operationName"] = op.OperationName
			}
			cl.Send(map[string]interface{}{"type": requests.SubStart, "id": id, "payload": payload})
			up := r.Ups[w.SubOwner[field]].Accept(3 * time.Second)
			if up == nil {
				return "subscription not started upstream: " + op.Query
			}
			subs = append(subs, live{id, up, field, op})
		}
		emit := func(s live) {
			owner := r.Services[w.SubOwner[s.field]]
			data, errs, _ := owner.Answer(s.up.Start, 0)
			if errs == nil {
				s.up.Data(data, nil)
			}
		}
		for k := 0; k < c.Warmup; k++ {
			emit(subs[k%len(subs)])
		}
		// the race
		var wg sync.WaitGroup
		startLine := make(chan struct{})
		for ai, a := range c.Race {
			a := a
			s := subs[ai%len(subs)]
			wg.Add(1)
			go func() {
				defer wg.Done()
				<-startLine
				switch a {
				case "stop":
					cl.Send(map[string]interface{}{"type": requests.SubStop, "id": s.id})
				case "stop_unknown":
					cl.Send(map[string]interface{}{"type": requests.SubStop, "id": "nope"})
				case "complete":
					s.up.Complete()
				case "event":
					emit(s)
				case "error_msg":
					s.up.ErrorMsg([]interface{}{map[string]interface{}{"message": "boom"}})
				case "drop_upstream":
					s.up.Drop()
				case "terminate":
					cl.Send(map[string]interface{}{"type": requests.SubConnectionTerminate})
				case "disconnect":
					cl.Drop()
				case "malformed":
					cl.SendRaw([]byte(`{"type": "start", "id": `))
				case "incomplete":
					cl.SendRaw([]byte(`{"type": "start", "id": "x"}`))
				case "unknown_type":
					cl.SendRaw([]byte(`{"type": "what"}`))
				case "start_duplicate_id":
					cl.Send(map[string]interface{}{"type": requests.SubStart, "id": s.id, "payload": map[string]interface{}{"query": s.op.Query, "variables": s.op.Variables}})
				}
			}()
		}
		close(startLine)
		wg.Wait()
		// afterwards: every frame the client got is a whole message; then end the connection and expect every upstream closed
		time.Sleep(20 * time.Millisecond)
		cl.Send(map[string]interface{}{"type": requests.SubConnectionTerminate})
		deadline := time.After(3 * time.Second)
	frames:
		for {
			select {
			case f := <-cl.Frames:
				if f.BadJSON {
					return fmt.Sprintf("the client received a frame that is not one JSON message: %q", shortStr(f.Raw, 200))
				}
				if f.Close {
					if corruptStream(f.Err) {
						return "the client's websocket stream is corrupt: " + f.Err
					}
					break frames
				}
			case <-deadline:
				return "the connection was not closed within 3s of connection_terminate"
			}
		}
		cl.Drop()
		for _, s := range subs {
			if !s.up.WaitClosed(3 * time.Second) {
				return fmt.Sprintf("upstream connection of %s still open 3s after the client connection ended", s.id)
			}
		}
		// upstreams opened by a duplicate start
		for _, u := range r.Ups {
			for {
				extra := u.Accept(20 * time.Millisecond)
				if extra == nil {
					break
				}
				if !extra.WaitClosed(3 * time.Second) {
					return "an upstream connection opened during the race is still open 3s after the client connection ended"
				}
			}
		}
	}
	// goroutines started for the connections must be gone
	var n int
	for i := 0; i < 60; i++ {
		n = runtime.NumGoroutine()
		if n <= base+2 {
			break
		}
		time.Sleep(50 * time.Millisecond)
	}
	if n > base+2 {
		buf := make([]byte, 1<<16)
		buf = buf[:runtime.Stack(buf, true)]
		return fmt.Sprintf("%d goroutines before, %d three seconds after all connections ended; stacks: %s", base, n, leakedStacks(string(buf)))
	}
	return ""
}

// corruptStream: the websocket reader could not parse what the gateway wrote (as opposed to the connection ending)
func corruptStream(err string) bool {
	for _, w := range []string{"utf8", "protocol", "opcode", "frame", "rsv", "reserved", "fragment", "unexpected"} {
		if strings.Contains(strings.ToLower(err), w) && !strings.Contains(err, "unexpected EOF") {
			return true
		}
	}
	return false
}

func leakedStacks(all string) string {
	var keep []string
	for _, g := range strings.Split(all, "\n\n") {
		if strings.Contains(g, "pebbles") && (strings.Contains(g, "subscription") || strings.Contains(g, "Subscribe")) {
			lines := strings.Split(g, "\n")
			if len(lines) > 7 {
				lines = lines[:7]
			}
			keep = append(keep, strings.Join(lines, " | "))
		}
	}
	if len(keep) > 4 {
		keep = keep[:4]
	}
	return strings.Join(keep, " ;; ")
}

func driveC18(seed int64, tier, out, replay string) {
	obs := hx.NewObs("C18", seed, tier)
	rng := hx.NewRand(seed)
	n := 40
	if tier == "thorough" {
		n = 400
	}
	actions := []string{"stop", "complete", "event", "error_msg", "drop_upstream", "terminate", "disconnect", "malformed", "incomplete", "unknown_type", "stop_unknown", "stop", "complete", "event", "start_duplicate_id"}
	var cases []c18Case
	if replay != "" {
		cases = loadReplayCases[c18Case](replay)
	} else {
		for i := 0; i < n; i++ {
			c := c18Case{WorldSeed: rng.Int63(), Subs: 1 + rng.Intn(3), Warmup: rng.Intn(4), Repeat: 6}
			for k := 0; k < 2+rng.Intn(4); k++ {
				c.Race = append(c.Race, actions[rng.Intn(len(actions))])
			}
			cases = append(cases, c)
		}
		hb := 1
		if tier == "thorough" {
			hb = 4
		}
		for i := 0; i < hb; i++ {
			cases = append(cases, c18Case{WorldSeed: rng.Int63(), Subs: 1, Heartbeat: true, Repeat: 1})
		}
		for i := 0; i < 3*hb; i++ {
			cases = append(cases, c18Case{WorldSeed: rng.Int63(), Subs: 1, StopBusy: true, Repeat: 1})
		}
		for i := 0; i < 3*hb; i++ {
			cases = append(cases, c18Case{WorldSeed: rng.Int63(), Subs: 1, Storm: 20 + 20*i, Repeat: 1})
		}
	}
	var coq []string
	for i, c := range cases {
		hx.Current(out, i, c)
		obs.Evaluations++
		obs.CaseInputs = append(obs.CaseInputs, c)
		var traces []entryTrace
		var what string
		if c.Heartbeat {
			what = runHeartbeat(c)
			obs.Count("heartbeat_during_stalled_write")
		} else if c.StopBusy {
			what = runStopBusy(c)
			obs.Count("stop_while_listener_is_writing")
		} else if c.Storm > 0 {
			what = runStorm(c)
			obs.Count("stop_in_the_middle_of_a_busy_stream")
		} else {
			what = runC18(c, obs, &traces)
		}
		var ts []string
		for _, t := range traces {
			ts = append(ts, coqTrace(t, what == "", -1))
			obs.Count(fmt.Sprintf("trace_length_%02d", len(t.Labels)/5*5))
		}
		coq = append(coq, "mkCase [] [] ["+strings.Join(ts, ";\n    ")+"]")
		if strings.HasPrefix(what, "skip:") {
			obs.Count("skipped")
			continue
		}
		for _, a := range c.Race {
			obs.Count("race_" + a)
		}
		if what != "" {
			obs.Fail(i, what, c)
		}
	}
	obs.DistinctNontrivial = len(cases)
	obs.Rule = "connections with 1-3 subscriptions; 2-5 client/upstream actions released at the same instant (stop, upstream complete/event/error/drop, terminate, abrupt disconnect, malformed / incomplete / unknown messages), six repetitions each; afterwards every received frame must be one JSON message, the connection must end, every upstream connection must be closed and the goroutine count must return to its base"
	hx.WriteCasesSharded(out, "From Coq Require Import List String.\nFrom Pebbles Require Import Sub.LTS Sub.Conn Corr.C18.\nImport ListNotations.\n", "c18case", coq, "mismatches", 10)
	obs.Write(out)
}
