package main

import (
	"bytes"
	"encoding/json"
	"fmt"
	"math/rand"
	"runtime"
	"sort"
	"strings"
	"sync"
	"time"

	"github.com/buildbuildio/pebbles/common"
	"github.com/buildbuildio/pebbles/executor"
	"github.com/buildbuildio/pebbles/planner"
	"github.com/buildbuildio/pebbles/queryer"
	"github.com/buildbuildio/pebbles/requests"
	"github.com/vektah/gqlparser/v2/ast"

	"verif/harness/coqprint"
	"verif/harness/fake"
	"verif/harness/gen"
	"verif/harness/hx"
)

func init() { drivers["C13"] = driveC13 }

type c13Case struct {
	WorldSeed int64      `json:"world_seed"`
	Domain    string     `json:"world_domain,omitempty"` // "" = inD01, "unions" = many union-typed fields
	OpSeed    int64      `json:"op_seed"`
	Op        *gen.GenOp `json:"operation,omitempty"`
	Faults    []c13Fault `json:"faults,omitempty"`
	Perturb   int64      `json:"perturbation_seed"`
}
type c13Fault struct {
	URL   string     `json:"url"`
	Fault fake.Fault `json:"fault"`
}

func perturbHook(seed int64) func(string, ...any) {
	var mu sync.Mutex
	prng := rand.New(rand.NewSource(seed))
	return func(point string, args ...any) {
		mu.Lock()
		var d time.Duration
		yield := false
		switch prng.Intn(5) {
		case 0:
			yield = true
		case 1:
			d = time.Duration(prng.Intn(120)) * time.Microsecond
		}
		mu.Unlock()
		if yield {
			runtime.Gosched()
		}
		if d > 0 {
			time.Sleep(d)
		}
	}
}

func errorSet(resp map[string]interface{}) string {
	el, _ := resp["errors"].([]interface{})
	var es []string
	for _, e := range el {
		es = append(es, fake.CanonJSON(e))
	}
	sort.Strings(es)
	return strings.Join(es, "\n")
}

func planCanon(r *Rig, op gen.GenOp, o *ast.OperationDefinition) (string, *planner.QueryPlan, error) {
	var sp planner.SequentialPlanner
	plan, err := sp.Plan(&planner.PlanningContext{Operation: o, Request: &requests.Request{Query: op.Query, Variables: op.Variables}, Schema: r.Merged, TypeURLMap: r.TM})
	if err != nil {
		return "", nil, err
	}
	var steps []string
	var walk func(s *planner.QueryPlanStep, d int)
	walk = func(s *planner.QueryPlanStep, d int) {
		vl := append([]string(nil), s.VariablesList...)
		steps = append(steps, fmt.Sprintf("%d|%s|%s|%v|%s|%v", d, s.URL, s.ParentType, s.InsertionPoint, strings.Join(strings.Fields(s.QueryString), " "), vl))
		for _, t := range s.Then {
			walk(t, d+1)
		}
	}
	for _, s := range plan.RootSteps {
		walk(s, 0)
	}
	sort.Strings(steps)
	sf, _ := json.Marshal(plan.ScrubFields)
	return strings.Join(steps, "\n") + "\nSCRUB " + string(sf), plan, nil
}

func scrubToCoq(sf planner.ScrubFields) string {
	var paths []string
	for p := range sf {
		paths = append(paths, p)
	}
	sort.Strings(paths)
	var items []string
	for _, p := range paths {
		var tns []string
		for t := range sf[p] {
			tns = append(tns, t)
		}
		sort.Strings(tns)
		var tf []string
		for _, t := range tns {
			fs := make([]string, len(sf[p][t]))
			for i, f := range sf[p][t] {
				fs[i] = coqprint.CoqStr(f)
			}
			tf = append(tf, fmt.Sprintf("(%s, [%s])", coqprint.CoqStr(t), strings.Join(fs, "; ")))
		}
		segs := strings.Split(p, ".")
		for i := range segs {
			segs[i] = coqprint.CoqStr(segs[i])
		}
		items = append(items, fmt.Sprintf("([%s], [%s])", strings.Join(segs, "; "), strings.Join(tf, "; ")))
	}
	return "[" + strings.Join(items, "; ") + "]"
}

func jsonObjToCoq(m map[string]interface{}) string {
	b, _ := json.Marshal(m)
	var x map[string]interface{}
	dec := json.NewDecoder(bytes.NewReader(b))
	dec.UseNumber()
	dec.Decode(&x)
	if x == nil {
		return "[]"
	}
	return strings.TrimSuffix(strings.TrimPrefix(coqprint.JSON(x, nil), "(JObj "), ")")
}

func driveC13(seed int64, tier, out, replay string) {
	rng := hx.NewRand(seed)
	obs := hx.NewObs("C13", seed, tier)
	nWorlds, per, k := 12, 8, 5
	if tier == "thorough" {
		nWorlds, per, k = 120, 20, 12
	}
	rigs := map[string]*Rig{}
	getRig := func(seed int64, dom string) *Rig {
		if dom == "" {
			dom = "inD01"
		}
		rk := fmt.Sprint(seed, dom)
		r, ok := rigs[rk]
		if !ok {
			var err error
			r, err = NewRig(worldFor(seed, dom), RigConfig{})
			if err != nil {
				r = nil
			}
			rigs[rk] = r
		}
		return r
	}
	var cases []c13Case
	if replay != "" {
		cases = loadReplayCases[c13Case](replay)
	} else {
		for i := 0; i < nWorlds; i++ {
			ws := rng.Int63()
			if i%3 == 2 {
				// a world that offers a union-typed field below a root object, if one of the next few does
				for t := int64(0); t < 12; t++ {
					if r := getRig(ws+t, "unions"); r != nil {
						if _, ok := gen.SharedAbstractOperation(hx.NewRand(1), r.Merged, gen.OpOptions{}); ok {
							ws += t
							break
						}
					}
				}
			}
			for j := 0; j < per; j++ {
				c := c13Case{WorldSeed: ws, OpSeed: rng.Int63(), Perturb: rng.Int63()}
				if i%3 == 2 {
					c.Domain = "unions"
				}
				if i%3 == 1 {
					c.Domain = "ifaces"
				}
				cases = append(cases, c)
			}
		}
	}
	if replay == "" {
		// shapes on the hand-written federation, each sent as often as the generated ones (helpers reaching one level
		// through several fragments, fix 2e934d6; the regression shapes of C01)
		for i, q := range append([]string{
			`{ me { ... on Human { name } ... on Node { uid: id } } }`,
			`{ me { ... on Node { uid: id } ... on Human { name } } humans { ... on Human { friend { phone } } ... on Node { nid: id } } }`,
			`{ pets { ... on Pet { kind } ... on Node { pid: id } owner { ... on Human { phone } ... on Node { hid: id } } } }`,
		}, handShapes...) {
			cases = append(cases, c13Case{Domain: "hand", OpSeed: int64(i), Op: &gen.GenOp{Query: q, Kind: "query", Features: []string{"hand_shape"}}, Perturb: rng.Int63()})
		}
		// several variables in one sub-request header whose names differ in letter case only: the header order must not
		// depend on map iteration
		for i, q := range []string{
			`query($a: Int, $A: Int) { me { name(a: $a) friend { name(a: $A) } } }`,
			`query($first: Int, $First: Int, $after: Int) { me { name(a: $first) friend { name(a: $First) friend { name(a: $after) } } } }`,
		} {
			cases = append(cases, c13Case{Domain: "hand", OpSeed: int64(900 + i), Op: &gen.GenOp{Query: q, Kind: "query", Features: []string{"hand_shape", "variables_differing_in_case"},
				Variables: map[string]interface{}{"a": 1, "A": 2, "first": 1, "First": 2, "after": 3}}, Perturb: int64(77 + i)})
		}
	}
	// listed findings: an operation on the hand-written federation whose answers differ between sends
	if hand, err := NewRig(handWorld(), RigConfig{}); err == nil {
		for _, kf := range loadKnown("C13") {
			var kc struct {
				Op gen.GenOp `json:"operation"`
			}
			if jsonUnmarshal(kf.Input, &kc) != nil {
				continue
			}
			answers := map[string]bool{}
			for i := 0; i < 80; i++ {
				resp, _ := hand.Do(kc.Op)
				answers[fake.CanonJSON(resp)] = true
			}
			if len(answers) > 1 {
				obs.KnownHit = append(obs.KnownHit, hx.Failure{Key: kf.Key, What: kf.Key + ": " + kf.What})
			} else {
				obs.KnownGone = append(obs.KnownGone, kf.Key)
			}
		}
	}
	var coq []string
	// hand-made results with lists of lists, nulls and scalars inside lists: the real Clean vs the model (fix: lists
	// of lists used to be deleted together with their parents)
	for hi, hc := range []struct {
		sf     planner.ScrubFields
		before string
		want   string // helpers gone from every object the path reaches, everything else as it was
	}{
		{planner.ScrubFields{"me.matrix": {"Pet": {"id"}}},
			`{"me":{"id":"h1","matrix":[[{"id":"p1","kind":"cat"},{"id":"p2"}],[],[{"id":"p2","kind":"dog"}]]}}`,
			`{"me":{"id":"h1","matrix":[[{"kind":"cat"},{}],[],[{"kind":"dog"}]]}}`},
		{planner.ScrubFields{"me.matrix": {"Pet": {"id"}}},
			`{"me":{"x":1,"matrix":[[{"id":"p1","k":1}],[{"id":"p2","k":2}]]}}`,
			`{"me":{"matrix":[[{"k":1}],[{"k":2}]],"x":1}}`},
		{planner.ScrubFields{"l": {"A": {"id", "__typename"}, "B": {"__typename"}}},
			`{"l":[[{"__typename":"A","id":"1","x":1},{"__typename":"B","y":2}],null,[[{"__typename":"B","id":"2"}]],"s",7]}`,
			`{"l":[[{"x":1},{"y":2}],null,[[{"id":"2"}]],"s",7]}`},
		{planner.ScrubFields{"a.b": {"T": {"id"}}},
			`{"a":[{"b":[[{"id":"1","k":false}]]},{"b":[]},{"b":null},{"b":[[],[{"id":"2","k":true}]]}]}`,
			`{"a":[{"b":[[{"k":false}]]},{"b":[]},{"b":null},{"b":[[],[{"k":true}]]}]}`},
	} {
		var before map[string]interface{}
		dec := json.NewDecoder(strings.NewReader(hc.before))
		dec.UseNumber()
		if dec.Decode(&before) != nil {
			continue
		}
		beforeCoq := jsonObjToCoq(before)
		hc.sf.Clean(before)
		if got := fake.CanonJSON(before); got != hc.want {
			obs.Fail(hi, fmt.Sprintf("ScrubFields %v cleaning %s gives %s, expected %s", hc.sf, hc.before, got, hc.want), map[string]interface{}{"scrub_fields": hc.sf, "result_before_clean": hc.before})
		}
		coq = append(coq, fmt.Sprintf("mkCase %s\n    %s\n    %s", scrubToCoq(hc.sf), beforeCoq, jsonObjToCoq(before)))
		obs.CaseInputs = append(obs.CaseInputs, c13Case{})
		obs.Count("hand_made_results_with_lists_of_lists")
	}
	distinct := map[string]bool{}
	idx := 0
	for _, c := range cases {
		r := getRig(c.WorldSeed, c.Domain)
		if r == nil {
			continue
		}
		var op gen.GenOp
		if c.Op != nil {
			op = *c.Op
		} else {
			orng := hx.NewRand(c.OpSeed)
			oo := opOptionsFor("inD01", r.World)
			oo.UnevenIDs = c.OpSeed%3 == 0
			// in interface worlds half of the operations carry fragments on other abstract types, on the type itself,
			// nested: whatever the answer is, it has to be the same every time
			oo.Wild = c.Domain == "ifaces" && c.OpSeed%2 == 0
			op = gen.Operation(orng, r.Merged, oo)
			if orng.Intn(4) == 0 {
				if mop, ok := gen.MultiNodeRootOperation(orng, r.Merged, opOptionsFor("inD01", r.World)); ok {
					op = mop
				}
			} else if c.Domain == "unions" && orng.Intn(4) != 0 {
				if sop, ok := gen.SharedAbstractOperation(orng, r.Merged, oo); ok {
					op = sop
				}
			}
			c.Op = &op
		}
		o := selectedOp(r.Merged, op)
		if o == nil {
			continue
		}
		hx.Current(out, idx, c)
		for _, f := range op.Features {
			if f == "shared_abstract" || f == "multi_node_root" || f == "uneven_ids" || f == "abstract" {
				obs.Count("op_" + f)
			}
		}
		what := ""
		// (b) the plan is the same every time
		first, plan, err := planCanon(r, op, o)
		if err != nil {
			continue
		}
		for i := 0; i < k && what == ""; i++ {
			o2 := selectedOp(r.Merged, op)
			again, _, err2 := planCanon(r, op, o2)
			if err2 != nil || again != first {
				what = "planning the same operation twice gave different plans"
			}
		}
		// (c) scrubbing: real executor result before Clean, real Clean, model
		for _, s := range r.Services {
			s.Faults = nil
		}
		qs := map[string]queryer.Queryer{}
		for u, s := range r.Services {
			qs[u] = s
		}
		var pe executor.ParallelExecutor
		before, xerr := pe.Execute(&executor.ExecutionContext{QueryPlan: plan, Request: &requests.Request{Query: op.Query, Variables: op.Variables}, Queryers: qs})
		line := "mkCase [] [] []"
		listedShape := false // node roots spanning services: the scrub table's hypothesis does not hold (listed finding)
		for _, f := range op.Features {
			listedShape = listedShape || f == "multi_node_root"
		}
		if xerr == nil && before != nil && !listedShape {
			beforeCoq := jsonObjToCoq(before)
			plan.ScrubFields.Clean(before)
			line = fmt.Sprintf("mkCase %s\n    %s\n    %s", scrubToCoq(plan.ScrubFields), beforeCoq, jsonObjToCoq(before))
		}
		coq = append(coq, line)
		// (a) the gateway answers the same every time, also when steps fail concurrently
		if c.Faults == nil && rng.Intn(3) == 0 {
			r.ResetLogs()
			r.Do(op)
			seen := map[string]bool{}
			for _, l := range r.Logs() {
				if !seen[l.URL] && l.Call == 0 && len(seen) < 2 {
					seen[l.URL] = true
					c.Faults = append(c.Faults, c13Fault{URL: l.URL, Fault: fake.Fault{Kind: "errors", Call: 0, Pos: 0}})
				}
			}
		}
		for _, s := range r.Services {
			s.Faults = nil
		}
		for _, f := range c.Faults {
			r.Services[f.URL].Faults = append(r.Services[f.URL].Faults, f.Fault)
		}
		var data0, errs0, subs0 string
		for i := 0; i < k && what == ""; i++ {
			common.SetVerifHook(perturbHook(c.Perturb + int64(i)))
			r.ResetLogs()
			resp, ho := r.Do(op)
			common.SetVerifHook(nil)
			if ho.Panic != "" || ho.TimedOut || resp == nil {
				what = "no well-formed answer: " + ho.Panic
				break
			}
			data := fake.CanonJSON(resp["data"])
			es := errorSet(resp)
			subs := strings.Join(fake.SortedLog(r.Logs()), "\n")
			if i == 0 {
				data0, errs0, subs0 = data, es, subs
				continue
			}
			nodeRoots := false
			for _, f := range op.Features {
				nodeRoots = nodeRoots || f == "multi_node_root"
			}
			switch {
			case nodeRoots && subs == subs0:
				// listed finding C13-node-root-scrub-order: the data of node roots spanning services is compared
				// in the finding's own replay; here the sub-requests (and above, the plans) must be stable
			case data != data0:
				what = fmt.Sprintf("the same operation returned different data on send %d: %s vs %s", i+1, shortStr(data, 250), shortStr(data0, 250))
			case es != errs0:
				what = fmt.Sprintf("the same operation returned a different set of errors on send %d: %s vs %s", i+1, shortStr(es, 250), shortStr(errs0, 250))
			case subs != subs0 && len(c.Faults) == 0:
				what = fmt.Sprintf("the same operation caused different sub-requests on send %d", i+1)
			}
		}
		// the same operation several times in ONE batch: every entry answers as the operation sent alone
		if what == "" && len(c.Faults) == 0 && !listedShape && data0 != "" {
			one := opBody(op)
			batch := "[" + strings.Join([]string{string(one), string(one), string(one), string(one)}, ",") + "]"
			ho := r.PostRaw([]byte(batch), "application/json")
			var arr []map[string]interface{}
			if json.Unmarshal(ho.Body, &arr) != nil || len(arr) != 4 {
				what = "a batch of four copies of the operation was not answered with four results: " + shortStr(string(ho.Body), 200)
			} else {
				for bi, e := range arr {
					if d := fake.CanonJSON(e["data"]); d != data0 && what == "" {
						what = fmt.Sprintf("entry %d of a batch of four copies of the operation answers %s, the operation alone %s", bi, shortStr(d, 250), shortStr(data0, 250))
					}
				}
			}
			obs.Count("same_operation_four_times_in_one_batch")
		}
		for _, s := range r.Services {
			s.Faults = nil
		}
		if what != "" {
			obs.Fail(idx, what, c)
		}
		obs.CaseInputs = append(obs.CaseInputs, c)
		if len(c.Faults) > 0 {
			obs.Count(fmt.Sprintf("with_%d_failing_services", len(c.Faults)))
		}
		if plan.ScrubFields != nil {
			multi := false
			for _, m := range plan.ScrubFields {
				if len(m) > 1 {
					multi = true
				}
			}
			if multi {
				obs.Count("scrub_paths_with_several_types")
			}
		}
		if strings.Count(subs0, "\n") >= 1 {
			distinct[fmt.Sprint(c.WorldSeed, op.Query)] = true
		}
		if idx%31 == 3 && len(obs.Samples) < 4 {
			obs.Samples = append(obs.Samples, map[string]interface{}{"operation": op.Query, "faults": c.Faults, "plan": strings.Split(first, "\n")})
		}
		idx++
	}
	obs.Evaluations = idx
	obs.DistinctNontrivial = len(distinct)
	obs.Rule = fmt.Sprintf("generated operations over generated worlds; each planned %d times (canonical step set + ScrubFields compared), executed once directly through ParallelExecutor to obtain the pre-scrub result (planner invariant + real Clean vs model), and sent %d times through the gateway under randomly perturbed goroutine scheduling (yields/sleeps at every verif hook point), a third of them with two services failing concurrently; data, error set and sub-request multiset must not change; non-trivial = at least 2 sub-requests", k, k)
	hx.WriteCases(out, "From Pebbles Require Import Base.Json Exec.Scrub Corr.C13.\nFrom Coq Require Import List String. Import ListNotations.\nOpen Scope string_scope.\n", "c13case", coq, "mismatches")
	obs.Write(out)
}
