package main

import (
	"bytes"
	"encoding/json"
	"fmt"
	"net/http"
	"net/http/httptest"
	"strings"
	"time"

	pebbles "github.com/buildbuildio/pebbles"
	"github.com/buildbuildio/pebbles/executor"
	"github.com/buildbuildio/pebbles/merger"
	"github.com/buildbuildio/pebbles/planner"
	"github.com/buildbuildio/pebbles/queryer"
	"github.com/buildbuildio/pebbles/requests"
	"github.com/vektah/gqlparser/v2"
	"github.com/vektah/gqlparser/v2/ast"

	"verif/harness/fake"
	"verif/harness/gen"
)

type mockIntrospector struct{ res []*ast.Schema }

func (m *mockIntrospector) IntrospectRemoteSchemas(urls ...string) ([]*ast.Schema, error) {
	return m.res, nil
}

type RigConfig struct {
	HideNode bool `json:"hide_node_merger"`
	Hint     bool `json:"id_to_type_hint"`
	Cached   bool `json:"cached_planner"`
	RealHTTP bool `json:"real_multiop_queryer"` // MultiOpQueryer + HTTP bridge between executor and fakes
	MaxBatch int  `json:"max_batch_size,omitempty"`
	Subs     bool `json:"subscriptions,omitempty"`             // graphql-ws upstream per service, gateway behind a real HTTP server
	StallMs  int  `json:"stall_first_long_frame_ms,omitempty"` // client connections stall once between header and payload of a frame
}

func (c RigConfig) String() string {
	return fmt.Sprintf("hide=%v hint=%v cached=%v http=%v/%d", c.HideNode, c.Hint, c.Cached, c.RealHTTP, c.MaxBatch)
}

type Rig struct {
	World    *gen.World
	SDLs     []string
	URLs     []string
	Services map[string]*fake.Service
	Merged   *ast.Schema
	TM       merger.TypeURLMap
	GW       *pebbles.Gateway
	Ref      *fake.Evaluator
	Cfg      RigConfig
	Bridges  map[string]*fake.Bridge
	Ups      map[string]*fake.WSUpstream
	GWSrv    *httptest.Server
}

// hybridQueryer: queries go to the fake service, subscriptions through the real MultiOpQueryer.Subscribe to a
// graphql-ws upstream
type hybridQueryer struct {
	queryer.Queryer
	sub queryer.Queryer
}

func (h hybridQueryer) Subscribe(req *requests.Request, closeCh <-chan struct{}, resCh chan *requests.Response) error {
	return h.sub.Subscribe(req, closeCh, resCh)
}

func (r *Rig) Close() {
	if r.GWSrv != nil {
		r.GWSrv.CloseClientConnections()
		r.GWSrv.Close()
	}
	for _, u := range r.Ups {
		u.Close()
	}
}

// nopQueryer stands in for the pseudo-URL of introspection steps.
type nopQueryer struct{ url string }

func (n nopQueryer) Query(in []*requests.Request) ([]map[string]interface{}, error) {
	out := make([]map[string]interface{}, len(in))
	for i := range out {
		out[i] = map[string]interface{}{}
	}
	return out, nil
}
func (n nopQueryer) Subscribe(*requests.Request, <-chan struct{}, chan *requests.Response) error {
	return nil
}
func (n nopQueryer) URL() string { return n.url }

func loadSchemas(sdls []string) ([]*ast.Schema, error) {
	var out []*ast.Schema
	for _, sdl := range sdls {
		s, err := gqlparser.LoadSchema(&ast.Source{Name: "svc", Input: sdl})
		if err != nil {
			return nil, fmt.Errorf("%v in:\n%s", err, sdl)
		}
		out = append(out, s)
	}
	return out, nil
}

func NewRig(w *gen.World, cfg RigConfig) (*Rig, error) {
	r := &Rig{World: w, Services: map[string]*fake.Service{}, Cfg: cfg}
	for _, s := range w.Services {
		r.SDLs = append(r.SDLs, s.SDL())
		r.URLs = append(r.URLs, s.URL)
	}
	own, err := loadSchemas(r.SDLs) // each service validates against its own copy
	if err != nil {
		return nil, err
	}
	r.Bridges = map[string]*fake.Bridge{}
	for i, u := range r.URLs {
		r.Services[u] = fake.NewService(u, own[i], w.Store)
		r.Bridges[u] = &fake.Bridge{Svc: r.Services[u], ErrCall: -1}
	}
	if cfg.Subs {
		r.Ups = map[string]*fake.WSUpstream{}
		for _, u := range r.URLs {
			r.Ups[u] = fake.NewWSUpstream()
		}
	}
	var m merger.Merger = merger.ExtendMergerFunc(nil)
	if cfg.HideNode {
		m = merger.SanitizeNodeMergerFunc(nil)
	}
	// the reference server's schema: the same merger on fresh copies
	refIn, _ := loadSchemas(r.SDLs)
	var mis []*merger.MergeInput
	for i, s := range refIn {
		mis = append(mis, &merger.MergeInput{Schema: s, URL: r.URLs[i]})
	}
	mr, err := m.Merge(mis)
	if err != nil {
		return nil, fmt.Errorf("merge: %v", err)
	}
	r.Merged = mr.Schema
	r.TM = mr.TypeURLMap
	r.Ref = &fake.Evaluator{Schema: mr.Schema, Store: w.Store}

	gwIn, _ := loadSchemas(r.SDLs)
	opts := []pebbles.GatewayOption{
		pebbles.WithRemoteSchemaIntrospector(&mockIntrospector{res: gwIn}),
		pebbles.WithMerger(m),
		pebbles.WithQueryerFactory(func(ctx *planner.PlanningContext, url string) queryer.Queryer {
			if s, ok := r.Services[url]; ok {
				var q queryer.Queryer = s
				if cfg.RealHTTP {
					mb := cfg.MaxBatch
					if mb <= 0 {
						mb = 3000
					}
					q = queryer.NewMultiOpQueryer(url, mb).WithHTTPClient(&http.Client{Transport: r.Bridges[url]})
				}
				if up := r.Ups[url]; up != nil {
					return hybridQueryer{Queryer: q, sub: queryer.NewMultiOpQueryer(up.URL(), 1)}
				}
				return q
			}
			return nopQueryer{url}
		}),
	}
	if cfg.Hint {
		opts = append(opts, pebbles.WithGetParentTypeFromIDFunc(executor.GetParentTypeFromIDFunc(func(id interface{}) (string, bool) {
			s, ok := id.(string)
			if !ok {
				return "", false
			}
			if e := w.Store.Entities[s]; e != nil {
				return e.Type, true
			}
			return "", false
		})))
	}
	if cfg.Cached {
		opts = append(opts, pebbles.WithPlanner(planner.NewCachedPlanner(time.Hour)))
	}
	gw, err := pebbles.NewGateway(r.URLs, opts...)
	if err != nil {
		return nil, fmt.Errorf("gateway: %v", err)
	}
	r.GW = gw
	if cfg.Subs {
		r.GWSrv = httptest.NewUnstartedServer(http.HandlerFunc(gw.Handler))
		if cfg.StallMs > 0 {
			r.GWSrv.Listener = fake.StallListener{Listener: r.GWSrv.Listener, Hold: time.Duration(cfg.StallMs) * time.Millisecond}
		}
		r.GWSrv.Start()
	}
	return r, nil
}

func (r *Rig) ResetLogs() {
	for _, s := range r.Services {
		s.Reset()
	}
}

func (r *Rig) Logs() []fake.LoggedRequest {
	var out []fake.LoggedRequest
	for _, u := range r.URLs {
		out = append(out, r.Services[u].Snapshot()...)
	}
	return out
}

type httpObs struct {
	Status   int
	Body     []byte
	Panic    string
	TimedOut bool
}

// PostRaw sends a body through Gateway.Handler, observing panics of the handler goroutine itself.
func (r *Rig) PostRaw(body []byte, contentType string) (o httpObs) {
	req := httptest.NewRequest(http.MethodPost, "http://gw/graphql", bytes.NewReader(body))
	if contentType != "" {
		req.Header.Set("Content-Type", contentType)
	}
	rec := httptest.NewRecorder()
	done := make(chan struct{})
	go func() {
		defer close(done)
		defer func() {
			if p := recover(); p != nil {
				o.Panic = fmt.Sprint(p)
			}
		}()
		r.GW.Handler(rec, req)
	}()
	select {
	case <-done:
	case <-time.After(10 * time.Second):
		o.TimedOut = true
		return
	}
	o.Status = rec.Code
	o.Body = rec.Body.Bytes()
	return
}

func opBody(op gen.GenOp) []byte {
	m := map[string]interface{}{"query": op.Query}
	if op.Variables != nil {
		m["variables"] = op.Variables
	}
	if op.OperationName != "" {
		m["operationName"] = op.OperationName
	}
	b, _ := json.Marshal(m)
	return b
}

// Do sends one operation as a single JSON request.
func (r *Rig) Do(op gen.GenOp) (map[string]interface{}, httpObs) {
	o := r.PostRaw(opBody(op), "application/json")
	var resp map[string]interface{}
	json.Unmarshal(o.Body, &resp)
	return resp, o
}

// Reference evaluates the operation on the single server (merged schema, union of the data).
func (r *Rig) Reference(op gen.GenOp) (map[string]interface{}, error) {
	doc, errs := gqlparser.LoadQuery(r.Merged, op.Query)
	if errs != nil {
		return nil, errs
	}
	var name *string
	if op.OperationName != "" {
		name = &op.OperationName
	}
	var o *ast.OperationDefinition
	if name != nil {
		o = doc.Operations.ForName(*name)
	} else if len(doc.Operations) == 1 {
		o = doc.Operations[0]
	}
	if o == nil {
		return nil, fmt.Errorf("no operation")
	}
	return r.Ref.Exec(o, op.Variables)
}

// prune applies the tolerated difference: members whose value is {} or a non-empty list of {} disappear, bottom-up.
func prune(v interface{}) interface{} {
	switch x := v.(type) {
	case map[string]interface{}:
		out := map[string]interface{}{}
		for k, c := range x {
			pc := prune(c)
			if m, ok := pc.(map[string]interface{}); ok && len(m) == 0 {
				continue
			}
			if l, ok := pc.([]interface{}); ok && len(l) > 0 {
				all := true
				for _, e := range l {
					if m, ok := e.(map[string]interface{}); !ok || len(m) != 0 {
						all = false
					}
				}
				if all {
					continue
				}
			}
			out[k] = pc
		}
		return out
	case []interface{}:
		out := make([]interface{}, len(x))
		for i, c := range x {
			out[i] = prune(c)
		}
		return out
	}
	return v
}

func normJSON(v interface{}) string {
	b, _ := json.Marshal(v)
	var x interface{}
	json.Unmarshal(b, &x)
	return fake.CanonJSON(prune(x))
}

func shortStr(s string, n int) string {
	s = strings.Join(strings.Fields(s), " ")
	if len(s) > n {
		return s[:n] + "…"
	}
	return s
}
