package main

import (
	"bytes"
	"encoding/json"
	"fmt"
	"math/rand"
	"net/http"
	"regexp"
	"strings"

	"github.com/buildbuildio/pebbles/gqlerrors"
	"github.com/buildbuildio/pebbles/queryer"
	"github.com/buildbuildio/pebbles/requests"
	"github.com/vektah/gqlparser/v2"

	"verif/harness/coqprint"
	"verif/harness/fake"
	"verif/harness/gen"
	"verif/harness/hx"
)

func init() { drivers["C10"] = driveC10 }

type c10Case struct {
	Mode string `json:"mode"` // component | invalid | service_errors
	// component
	N    int    `json:"n,omitempty"`
	Body string `json:"body,omitempty"`
	// gateway
	MaxBatch  int                              `json:"max_batch_size,omitempty"` // 0 = the default (3000): 1 or 2 split a level's batch into chunks
	WorldSeed int64                            `json:"world_seed,omitempty"`
	OpSeed    int64                            `json:"op_seed,omitempty"`
	Op        *gen.GenOp                       `json:"operation,omitempty"`
	Mutation  string                           `json:"mutation,omitempty"`
	FaultURL  string                           `json:"fault_url,omitempty"`
	FaultCall int                              `json:"fault_call,omitempty"`
	Payloads  map[int][]map[string]interface{} `json:"payloads,omitempty"`
}

var c10ErrPool = []string{
	`{"message":"boom"}`,
	`{"message":"not authorized","path":["users",0,"email"],"extensions":{"code":"FORBIDDEN"}}`,
	`{"message":"not authorized","path":["users",1,"email"],"extensions":{"code":"FORBIDDEN"}}`,
	`{"message":"not authorized","path":["users",1,"email"],"extensions":{"code":"FORBIDDEN","detail":{"n":[1,2,{"k":null}]}}}`,
	`{"message":"m","extensions":null}`, `{"message":"m","extensions":{}}`, `{"message":"","path":[]}`,
	`{"message":"with locations","locations":[{"line":3,"column":7}],"path":["a"]}`,
	`{"Message":"cased","PATH":["p",2]}`, `{"message":"extra","unknown":{"x":1}}`, `{"path":["only","path"]}`,
}

func genC10Component(rng *rand.Rand) c10Case {
	n := 1 + rng.Intn(3)
	var es []string
	for i := 0; i < n; i++ {
		switch rng.Intn(4) {
		case 0, 1:
			k := 1 + rng.Intn(3)
			var errs []string
			for j := 0; j < k; j++ {
				errs = append(errs, c10ErrPool[rng.Intn(len(c10ErrPool))])
			}
			d := ""
			if rng.Intn(3) == 0 {
				d = `"data":{"partial":1},`
			}
			es = append(es, "{"+d+`"errors":[`+strings.Join(errs, ",")+"]}")
		case 2:
			es = append(es, `{"data":{"ok":true}}`)
		default:
			es = append(es, []string{`{}`, `{"data":null}`, `{"data":{"ok":1},"errors":[]}`}[rng.Intn(3)])
		}
	}
	return c10Case{Mode: "component", N: n, Body: "[" + strings.Join(es, ",") + "]"}
}

func runC10Component(c c10Case) (string, string) {
	sc := c09Case{N: c.N, Kind: "body", Body: c.Body}
	q := queryer.NewMultiOpQueryer("http://svc.invalid/graphql", 100).WithHTTPClient(&http.Client{Transport: scriptRT{sc}})
	inputs := make([]*requests.Request, c.N)
	for i := range inputs {
		inputs[i] = &requests.Request{Query: fmt.Sprintf("{ r%d }", i)}
	}
	_, err := q.Query(inputs)
	var obsErrs []interface{}
	if err != nil {
		el, ok := err.(gqlerrors.ErrorList)
		if !ok {
			return "mkCase 0 [] []", "scripted GraphQL errors came back as a non-GraphQL error: " + err.Error()
		}
		b, _ := json.Marshal(el)
		dec := json.NewDecoder(bytes.NewReader(b))
		dec.UseNumber()
		dec.Decode(&obsErrs)
	}
	// the property directly: every error of every element is there, message / path / extensions intact
	var elems []struct {
		Errors []map[string]interface{} `json:"errors"`
	}
	json.Unmarshal([]byte(c.Body), &elems)
	what := ""
	for _, e := range elems {
		for _, se := range e.Errors {
			if !containsError(obsErrs, se) && what == "" {
				what = fmt.Sprintf("service error %v is not among the errors the queryer reports: %v", se, obsErrs)
			}
		}
	}
	tree, _ := coqprint.ParseOrdered([]byte(c.Body))
	ans := coqprint.OrderedToCoq(tree)
	ans = strings.TrimSuffix(strings.TrimPrefix(ans, "(JArr "), ")")
	items := make([]string, len(obsErrs))
	for i, e := range obsErrs {
		items[i] = coqprint.JSON(e, nil)
	}
	return fmt.Sprintf("mkCase %d %s [%s]", c.N, ans, strings.Join(items, "; ")), what
}

func lookupCI(m map[string]interface{}, name string) (interface{}, bool) {
	var out interface{}
	found := false
	for k, v := range m {
		if strings.EqualFold(k, name) {
			out, found = v, true
		}
	}
	return out, found
}

// containsError: some client error has the same message, path and extensions (absent extensions = null)
func containsError(clientErrs []interface{}, want map[string]interface{}) bool {
	wm, _ := lookupCI(want, "message")
	if wm == nil {
		wm = ""
	}
	wp, _ := lookupCI(want, "path")
	we, _ := lookupCI(want, "extensions")
	for _, ce := range clientErrs {
		m, ok := ce.(map[string]interface{})
		if !ok {
			continue
		}
		if fake.CanonJSON(m["message"]) != fake.CanonJSON(wm) {
			continue
		}
		cp := m["path"]
		if l, ok := wp.([]interface{}); ok && len(l) == 0 {
			wp = nil
		}
		if fake.CanonJSON(cp) != fake.CanonJSON(wp) {
			continue
		}
		if fake.CanonJSON(m["extensions"]) != fake.CanonJSON(we) {
			continue
		}
		return true
	}
	return false
}

var fieldRe = regexp.MustCompile(`\b(n\d_f\d|q\d_\d|m\d_\d)\b`)

// mutate a valid operation into an invalid one
func invalidate(rng *rand.Rand, op gen.GenOp) (gen.GenOp, string) {
	q := op.Query
	switch rng.Intn(8) {
	case 0: // unknown field
		locs := fieldRe.FindAllStringIndex(q, -1)
		if len(locs) > 0 {
			l := locs[rng.Intn(len(locs))]
			return gen.GenOp{Query: q[:l[0]] + "nosuch_" + q[l[0]:l[1]] + q[l[1]:], Variables: op.Variables, OperationName: op.OperationName}, "unknown_field"
		}
	case 1: // unknown type condition
		if i := strings.Index(q, "... on "); i >= 0 {
			return gen.GenOp{Query: q[:i+7] + "Nope" + q[i+7:], Variables: op.Variables, OperationName: op.OperationName}, "unknown_type"
		}
	case 2: // unknown argument
		locs := fieldRe.FindAllStringIndex(q, -1)
		if len(locs) > 0 {
			l := locs[rng.Intn(len(locs))]
			if l[1] < len(q) && q[l[1]] != '(' && q[l[1]] != ':' {
				return gen.GenOp{Query: q[:l[1]] + "(bogus: 1)" + q[l[1]:], Variables: op.Variables, OperationName: op.OperationName}, "unknown_argument"
			}
		}
	case 3: // wrong variable type
		if strings.Contains(q, ": Int") {
			return gen.GenOp{Query: strings.Replace(q, ": Int", ": [Boolean]", 1), Variables: op.Variables, OperationName: op.OperationName}, "wrong_variable_type"
		}
	case 4: // fragment cycle
		return gen.GenOp{Query: q + " fragment Cyc1 on Query { ...Cyc2 } fragment Cyc2 on Query { ...Cyc1 }", Variables: op.Variables, OperationName: op.OperationName}, "fragment_cycle_unused"
	case 5: // two operations, no operationName
		return gen.GenOp{Query: "query First { __typename } " + strings.Replace(q, "query", "query Second_"+fmt.Sprint(rng.Intn(99)), 1), Variables: op.Variables}, "ambiguous"
	case 6: // unknown operationName
		return gen.GenOp{Query: q, Variables: op.Variables, OperationName: "NoSuchOperation"}, "unknown_operation_name"
	case 7: // syntax error
		return gen.GenOp{Query: q[:len(q)-1], Variables: op.Variables, OperationName: op.OperationName}, "syntax_error"
	}
	return gen.GenOp{Query: "{ definitelyNotAField }"}, "unknown_field"
}

// the selected operation is valid and named; the defect sits elsewhere in the same document (a sibling operation, a
// second operation of the same name, a fragment nothing uses, a cycle only the sibling spreads)
var c10SiblingKinds = []string{"sibling_unknown_field", "duplicate_operation_name", "unused_fragment_unknown_type", "sibling_fragment_cycle", "sibling_unknown_argument", "unused_fragment"}

func invalidateSibling(kind string, op gen.GenOp) (gen.GenOp, string) {
	q, name := op.Query, op.OperationName
	if name == "" {
		name = "Selected"
		if i := strings.IndexAny(q, " ({"); i > 0 {
			q = q[:i] + " " + name + q[i:]
		}
	}
	switch kind {
	case "sibling_unknown_field":
		q += " query SiblingBad { nosuch_sibling_field }"
	case "duplicate_operation_name":
		q += " query " + name + " { __typename }"
	case "unused_fragment_unknown_type":
		q += " query SiblingOk { __typename } fragment Lost on NoSuchType { id }"
	case "sibling_fragment_cycle":
		q += " query SiblingCyc { ...SCyc1 } fragment SCyc1 on Query { ...SCyc2 } fragment SCyc2 on Query { ...SCyc1 }"
	case "sibling_unknown_argument":
		q += " query SiblingArg { __typename @skip(if: true, bogus: 1) }"
	case "unused_fragment":
		q += " query SiblingOk2 { __typename } fragment NobodySpreadsMe on Query { __typename }"
	}
	return gen.GenOp{Query: q, Variables: op.Variables, OperationName: name}, kind
}

func driveC10(seed int64, tier, out, replay string) {
	rng := hx.NewRand(seed)
	obs := hx.NewObs("C10", seed, tier)
	nComp, nWorlds, opsPer := 300, 14, 10
	if tier == "thorough" {
		nComp, nWorlds, opsPer = 4000, 150, 20
	}
	var cases []c10Case
	if replay != "" {
		cases = loadReplayCases[c10Case](replay)
	} else {
		for i := 0; i < nComp; i++ {
			cases = append(cases, genC10Component(rng))
		}
		for i := 0; i < nWorlds; i++ {
			ws := rng.Int63()
			for j := 0; j < opsPer; j++ {
				mode := "invalid"
				if j%2 == 1 {
					mode = "service_errors"
				}
				c := c10Case{Mode: mode, WorldSeed: ws, OpSeed: rng.Int63()}
				if mode == "service_errors" && j%4 == 3 {
					c.MaxBatch = 1 + (j/4)%2
				}
				cases = append(cases, c)
			}
			// deterministic per world (no draw from the main stream): defects outside the selected operation
			for k, kind := range c10SiblingKinds {
				cases = append(cases, c10Case{Mode: "invalid", WorldSeed: ws, OpSeed: ws + int64(1000+k), Mutation: kind})
			}
		}
	}
	var coq []string
	distinct := map[string]bool{}
	rigs := map[string]*Rig{}
	idx := 0
	for _, c := range cases {
		hx.Current(out, idx, c)
		if c.Mode == "component" {
			line, what := runC10Component(c)
			if what != "" {
				obs.Fail(idx, what, c)
			}
			coq = append(coq, line)
			obs.CaseInputs = append(obs.CaseInputs, c)
			obs.Count("component")
			distinct[c.Body] = true
			idx++
			continue
		}
		key := fmt.Sprint(c.WorldSeed, c.Mode, c.MaxBatch)
		r := rigs[key]
		if r == nil {
			var err error
			r, err = NewRig(worldFor(c.WorldSeed, "inD01"), RigConfig{RealHTTP: c.Mode == "service_errors", MaxBatch: c.MaxBatch})
			if err != nil {
				continue
			}
			rigs[key] = r
		}
		var op gen.GenOp
		if c.Op != nil {
			op = *c.Op
		} else {
			op = gen.Operation(hx.NewRand(c.OpSeed), r.Merged, opOptionsFor("inD01", r.World))
		}
		for _, b := range r.Bridges {
			b.ErrCall, b.ErrorPayloads = -1, nil
		}
		if c.Mode == "invalid" {
			bad, kind := op, c.Mutation
			if c.Op == nil && c.Mutation != "" {
				bad, kind = invalidateSibling(c.Mutation, op)
			} else if c.Op == nil {
				bad, kind = invalidate(hx.NewRand(c.OpSeed+1), op)
			}
			// is it really rejected by validation / operation selection?
			doc, verr := gqlparser.LoadQuery(r.Merged, bad.Query)
			rejected := verr != nil
			if !rejected {
				if bad.OperationName != "" {
					rejected = doc.Operations.ForName(bad.OperationName) == nil
				} else {
					rejected = len(doc.Operations) != 1
				}
			}
			if !rejected {
				obs.Count("mutation_still_valid_" + kind)
				continue
			}
			c.Op, c.Mutation = &bad, kind
			r.ResetLogs()
			resp, o := r.Do(bad)
			what := ""
			logs := r.Logs()
			switch {
			case o.Panic != "" || o.TimedOut || resp == nil:
				what = "no well-formed answer to an invalid operation: " + o.Panic + shortStr(string(o.Body), 100)
			case len(logs) != 0:
				what = fmt.Sprintf("an invalid operation (%s) caused %d downstream request(s): %s", kind, len(logs), shortStr(logs[0].Query, 120))
			default:
				el, _ := resp["errors"].([]interface{})
				if len(el) == 0 || resp["data"] != nil {
					what = fmt.Sprintf("invalid operation (%s) answered with data=%v errors=%v", kind, resp["data"], resp["errors"])
				}
			}
			if what != "" {
				obs.Fail(idx, what, c)
			}
			obs.Count("invalid_" + kind)
			distinct[bad.Query] = true
		} else {
			// learn the calls of a fault-free run
			what0, _ := compareFed(r, op)
			if what0 != "" {
				continue
			}
			logs := r.Logs()
			if len(logs) == 0 {
				continue
			}
			target := logs[rng.Intn(len(logs))]
			size := 0
			for _, l := range logs {
				if l.URL == target.URL && l.Call == target.Call {
					size++
				}
			}
			payloads := c.Payloads
			if payloads == nil {
				payloads = map[int][]map[string]interface{}{}
				npos := 1 + rng.Intn(2)
				for k := 0; k < npos; k++ {
					pos := rng.Intn(size)
					var errs []map[string]interface{}
					for j := 0; j < 1+rng.Intn(2); j++ {
						var e map[string]interface{}
						json.Unmarshal([]byte(c10ErrPool[rng.Intn(len(c10ErrPool))]), &e)
						errs = append(errs, e)
					}
					payloads[pos] = errs
				}
				c.FaultURL, c.FaultCall, c.Payloads = target.URL, target.Call, payloads
			}
			c.Op = &op
			hx.Current(out, idx, c)
			r.Bridges[c.FaultURL].ErrCall = c.FaultCall
			r.Bridges[c.FaultURL].ErrorPayloads = payloads
			r.ResetLogs()
			resp, o := r.Do(op)
			what := ""
			if o.Panic != "" || o.TimedOut || resp == nil {
				what = "no well-formed answer under service errors: " + o.Panic
			} else if r.Services[c.FaultURL].FaultsApplied > 0 {
				el, _ := resp["errors"].([]interface{})
				for _, errs := range payloads {
					for _, se := range errs {
						if !containsError(el, se) && what == "" {
							what = fmt.Sprintf("service error %s did not reach the client intact; client errors: %s", fake.CanonJSON(se), shortStr(fake.CanonJSON(el), 300))
						}
					}
				}
			}
			if what != "" {
				obs.Fail(idx, what, c)
			}
			obs.Count(fmt.Sprintf("service_errors_positions_%d", len(payloads)))
			distinct[fmt.Sprint(c.WorldSeed, op.Query, c.FaultURL, c.FaultCall, payloads)] = true
		}
		coq = append(coq, "mkCase 0 [] []")
		obs.CaseInputs = append(obs.CaseInputs, c)
		if idx%71 == 5 && len(obs.Samples) < 5 {
			obs.Samples = append(obs.Samples, c)
		}
		idx++
	}
	obs.Evaluations = idx
	obs.DistinctNontrivial = len(distinct)
	obs.Rule = "component: scripted batch answers whose elements carry 1-3 GraphQL errors from a pool (paths with ints, nested extensions, absent/null extensions, locations, cased member names, equal messages with different paths) through the real MultiOpQueryer; invalid: valid generated operations mutated 8 ways (unknown field/type/argument, wrong variable type, fragment cycle, ambiguous, unknown operationName, syntax error) and, per world, 6 documents whose SELECTED operation is valid while a sibling operation / a second operation of the same name / an unused fragment / a cycle only the sibling spreads is not, kept only if gqlparser/operation selection rejects them; service_errors: gateway with real MultiOpQueryers over an HTTP bridge, error payloads injected at 1-2 positions of one downstream batch"
	hx.WriteCases(out, "From Pebbles Require Import Base.Json Net.Decode Net.Faults Net.Errors Corr.C10.\nFrom Coq Require Import List String. Import ListNotations.\nOpen Scope string_scope.\n", "c10case", coq, "mismatches")
	obs.Write(out)
}
