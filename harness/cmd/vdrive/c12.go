package main

import (
	"crypto/sha256"
	"fmt"
	"sort"
	"strings"
	"sync"

	"github.com/buildbuildio/pebbles/executor"
	"github.com/buildbuildio/pebbles/planner"
	"github.com/buildbuildio/pebbles/queryer"
	"github.com/buildbuildio/pebbles/requests"
	"github.com/vektah/gqlparser/v2"
	"github.com/vektah/gqlparser/v2/ast"

	"verif/harness/coqprint"
	"verif/harness/fake"
	"verif/harness/gen"
	"verif/harness/hx"
)

func init() { drivers["C12"] = driveC12 }

type c12Req struct {
	Root  bool   `json:"root_parent"`
	ID    string `json:"id,omitempty"`
	Step  int    `json:"step"`      // which of a few query strings
	Extra bool   `json:"extra_var"` // the step also uses a client variable
	URL   string `json:"url"`
}

type c12Case struct {
	Reqs []c12Req `json:"requests,omitempty"`
	// gateway level
	WorldSeed int64      `json:"world_seed,omitempty"`
	OpSeed    int64      `json:"op_seed,omitempty"`
	Op        *gen.GenOp `json:"operation,omitempty"`
	Hand      bool       `json:"hand_world,omitempty"` // the hand-written federation instead of a generated world
}

// posQueryer answers each request with its position in the batch and counts calls
type posQueryer struct {
	url   string
	mu    *sync.Mutex
	calls *map[string]int
	batch *[]int
}

func (p posQueryer) URL() string { return p.url }
func (p posQueryer) Subscribe(*requests.Request, <-chan struct{}, chan *requests.Response) error {
	return nil
}
func (p posQueryer) Query(in []*requests.Request) ([]map[string]interface{}, error) {
	p.mu.Lock()
	(*p.calls)[p.url]++
	*p.batch = append(*p.batch, len(in))
	p.mu.Unlock()
	out := make([]map[string]interface{}, len(in))
	for i := range in {
		out[i] = map[string]interface{}{"node": map[string]interface{}{"pos": i}, "pos": i}
	}
	return out, nil
}

func runC12Component(c c12Case) (coq string, what string) {
	var mu sync.Mutex
	calls := map[string]int{}
	var batch []int
	urls := map[string]bool{}
	queryers := map[string]queryer.Queryer{}
	for _, r := range c.Reqs {
		if !urls[r.URL] {
			urls[r.URL] = true
			queryers[r.URL] = posQueryer{url: r.URL, mu: &mu, calls: &calls, batch: &batch}
		}
	}
	ctx := &executor.ExecutionContext{Request: &requests.Request{Variables: map[string]interface{}{"x": 1}}, Queryers: queryers, QueryPlan: &planner.QueryPlan{}}
	steps := map[string]*planner.QueryPlanStep{}
	stepFor := func(r c12Req) *planner.QueryPlanStep {
		k := fmt.Sprint(r.URL, r.Step, r.Root, r.Extra)
		if s, ok := steps[k]; ok {
			return s
		}
		qs := fmt.Sprintf("query($id: ID!) { node(id: $id) { ... on T { f%d } } }", r.Step)
		s := &planner.QueryPlanStep{URL: r.URL, ParentType: "T", QueryString: qs, QueryStringHash: sha256.Sum256([]byte(qs))}
		if r.Root {
			s.ParentType = "Query"
			s.QueryString = fmt.Sprintf("{ root%d }", r.Step)
			s.QueryStringHash = sha256.Sum256([]byte(s.QueryString))
		}
		if r.Extra {
			s.VariablesList = []string{"x"}
		}
		steps[k] = s
		return s
	}
	var ers []*executor.ExecutionRequest
	for i, r := range c.Reqs {
		er := &executor.ExecutionRequest{QueryPlanStep: stepFor(r), InsertionPoint: []string{}}
		if !r.Root {
			er.InsertionPoint = []string{fmt.Sprintf("items:%d#%s", i, r.ID)}
		}
		ers = append(ers, er)
	}
	// (1) one service: executeRequests on the requests of the first URL
	first := c.Reqs[0].URL
	var mine []*executor.ExecutionRequest
	var mineReqs []c12Req
	for i, r := range c.Reqs {
		if r.URL == first {
			mine = append(mine, ers[i])
			mineReqs = append(mineReqs, r)
		}
	}
	de := executor.VerifNewDepthExecutor(ctx, nil, 1)
	resps, err := de.VerifExecuteRequests(mine)
	if err != nil {
		return "", "executeRequests failed: " + err.Error()
	}
	obsBatch := batch[0]
	var served []int
	for i, r := range resps {
		pos := -1
		if r != nil {
			if v, ok := r["pos"].(float64); ok {
				pos = int(v)
			}
		}
		if pos < 0 {
			what = fmt.Sprintf("execution request %d received no response", i)
			pos = 9999
		}
		served = append(served, pos)
	}
	// the property directly: identical id-only lookups are sent once, everything else is sent
	seen := map[string]bool{}
	wantBatch := 0
	for i, r := range mineReqs {
		k := fmt.Sprint("u", i)
		if !r.Root && !r.Extra {
			k = fmt.Sprint("d", r.ID, r.Step)
		}
		if !seen[k] {
			seen[k] = true
			wantBatch++
		}
	}
	if obsBatch != wantBatch && what == "" {
		what = fmt.Sprintf("%d requests sent for %d distinct lookups (of %d execution requests)", obsBatch, wantBatch, len(mineReqs))
	}
	// (2) the whole level through DepthExecutor.Execute
	calls = map[string]int{}
	batch = nil
	if _, err := de.Execute(ers); err != nil {
		return "", "DepthExecutor.Execute failed: " + err.Error()
	}
	var urlSeq []string
	for _, r := range c.Reqs {
		urlSeq = append(urlSeq, coqprint.CoqStr(r.URL))
	}
	var oc []string
	var us []string
	for u := range calls {
		us = append(us, u)
	}
	sort.Strings(us)
	for _, u := range us {
		oc = append(oc, fmt.Sprintf("(%s, %d)", coqprint.CoqStr(u), calls[u]))
		if calls[u] != 1 && what == "" {
			what = fmt.Sprintf("service %s was called %d times for one plan level", u, calls[u])
		}
	}
	var rs []string
	for _, r := range mineReqs {
		id := "None"
		nv := 0
		if !r.Root {
			id = "(Some " + coqprint.CoqStr(r.ID) + ")"
			nv = 1
		}
		if r.Extra {
			nv++
		}
		rs = append(rs, fmt.Sprintf("mkEReq %s %d %s %d", hx.CoqBool(r.Root), nv, id, r.Step))
	}
	coq = fmt.Sprintf("mkCase [%s] %d %s [%s] [%s]", strings.Join(rs, "; "), obsBatch, hx.CoqNatList(served), strings.Join(urlSeq, "; "), strings.Join(oc, "; "))
	return coq, what
}

func planLevels(r *Rig, op gen.GenOp) (map[string]int, error) {
	doc, errs := gqlparser.LoadQuery(r.Merged, op.Query)
	if errs != nil {
		return nil, errs
	}
	var o *ast.OperationDefinition
	if op.OperationName != "" {
		o = doc.Operations.ForName(op.OperationName)
	} else if len(doc.Operations) == 1 {
		o = doc.Operations[0]
	}
	if o == nil {
		return nil, fmt.Errorf("no op")
	}
	var sp planner.SequentialPlanner
	plan, err := sp.Plan(&planner.PlanningContext{Operation: o, Request: &requests.Request{Query: op.Query, Variables: op.Variables}, Schema: r.Merged, TypeURLMap: r.TM})
	if err != nil {
		return nil, err
	}
	levels := map[int]map[string]bool{}
	var walk func(s *planner.QueryPlanStep, d int)
	walk = func(s *planner.QueryPlanStep, d int) {
		if levels[d] == nil {
			levels[d] = map[string]bool{}
		}
		levels[d][s.URL] = true
		for _, t := range s.Then {
			walk(t, d+1)
		}
	}
	for _, s := range plan.RootSteps {
		walk(s, 0)
	}
	out := map[string]int{}
	for _, m := range levels {
		for u := range m {
			out[u]++
		}
	}
	return out, nil
}

func driveC12(seed int64, tier, out, replay string) {
	rng := hx.NewRand(seed)
	obs := hx.NewObs("C12", seed, tier)
	nComp, nWorlds, opsPer := 400, 12, 10
	if tier == "thorough" {
		nComp, nWorlds, opsPer = 5000, 150, 25
	}
	var cases []c12Case
	if replay != "" {
		cases = loadReplayCases[c12Case](replay)
	} else {
		for i := 0; i < nComp; i++ {
			n := 1 + rng.Intn(9)
			nu := 1 + rng.Intn(3)
			var c c12Case
			for j := 0; j < n; j++ {
				c.Reqs = append(c.Reqs, c12Req{Root: rng.Intn(6) == 0, ID: []string{"a", "b", "a#b", "N0_a", "c[1"}[rng.Intn(5)], Step: rng.Intn(3), Extra: rng.Intn(5) == 0, URL: fmt.Sprintf("http://s%d", rng.Intn(nu))})
			}
			cases = append(cases, c)
		}
		for i := 0; i < nWorlds; i++ {
			ws := rng.Int63()
			for j := 0; j < opsPer; j++ {
				cases = append(cases, c12Case{WorldSeed: ws, OpSeed: rng.Int63()})
			}
		}
		// the same entities reached from several places of one level (sibling fields, twin roots): one lookup each
		for _, q := range append(append([]string{}, handShapes...),
			`{ humans { phone } me { phone } }`,
			`{ me { friend { phone } } humans { phone friend { phone } } }`,
			`{ pets { owner { phone } } humans { phone } x: me { phone } }`) {
			op := gen.GenOp{Query: q, Kind: "query", Features: []string{"hand_shape"}}
			cases = append(cases, c12Case{Hand: true, WorldSeed: -1, Op: &op})
		}
	}
	var coq []string
	distinct := map[string]bool{}
	rigs := map[int64]*Rig{}
	idx := 0
	for _, c := range cases {
		hx.Current(out, idx, c)
		if len(c.Reqs) > 0 {
			line, what := runC12Component(c)
			if what != "" {
				obs.Fail(idx, what, c)
			}
			if line == "" {
				line = "mkCase [] 0 [] [] []"
			}
			coq = append(coq, line)
			obs.CaseInputs = append(obs.CaseInputs, c)
			obs.Count("component")
			distinct[line] = true
			idx++
			continue
		}
		r := rigs[c.WorldSeed]
		if r == nil {
			opt := gen.DefaultWorldOptions()
			opt.ListMax = 120
			opt.EntitiesMax = 60
			w := gen.NewWorld(hx.NewRand(c.WorldSeed), opt)
			if c.Hand {
				w = handWorld()
			}
			var err error
			r, err = NewRig(w, RigConfig{})
			if err != nil {
				continue
			}
			rigs[c.WorldSeed] = r
		}
		var op gen.GenOp
		if c.Op != nil {
			op = *c.Op
		} else {
			op = gen.Operation(hx.NewRand(c.OpSeed), r.Merged, opOptionsFor("inD01", r.World))
		}
		c.Op = &op
		levels, err := planLevels(r, op)
		if err != nil {
			continue
		}
		what, _ := compareFed(r, op)
		if strings.HasPrefix(what, "skip:") {
			continue
		}
		if what != "" {
			what = "de-duplicated results are not stitched into every place that needs them (or the answer is otherwise wrong): " + what
		}
		logs := r.Logs()
		calls := map[string]int{}
		byCall := map[string][]fake.LoggedRequest{}
		for _, l := range logs {
			if l.Call+1 > calls[l.URL] {
				calls[l.URL] = l.Call + 1
			}
			k := fmt.Sprint(l.URL, "#", l.Call)
			byCall[k] = append(byCall[k], l)
		}
		maxBatch := 0
		for u, n := range calls {
			if n > levels[u] && what == "" {
				what = fmt.Sprintf("service %s received %d batched calls but appears at %d plan levels", u, n, levels[u])
			}
		}
		for k, ls := range byCall {
			if len(ls) > maxBatch {
				maxBatch = len(ls)
			}
			seen := map[string]bool{}
			for _, l := range ls {
				if len(l.Variables) == 1 && l.Variables["id"] != nil {
					key := l.Query + "|" + fmt.Sprint(l.Variables["id"])
					if seen[key] && what == "" {
						what = fmt.Sprintf("call %s carries the identical lookup twice: %s id=%v", k, shortStr(l.Query, 100), l.Variables["id"])
					}
					seen[key] = true
				}
			}
		}
		if what != "" {
			obs.Fail(idx, what, c)
		}
		obs.Count(fmt.Sprintf("gateway_maxbatch_%s", bucket(maxBatch)))
		obs.CaseInputs = append(obs.CaseInputs, c)
		coq = append(coq, "mkCase [] 0 [] [] []")
		if len(calls) >= 2 {
			distinct[fmt.Sprint(c.WorldSeed, op.Query)] = true
		}
		if idx%53 == 3 && len(obs.Samples) < 4 {
			obs.Samples = append(obs.Samples, map[string]interface{}{"operation": op.Query, "calls_per_service": calls, "levels_per_service": levels, "largest_batch": maxBatch})
		}
		idx++
	}
	obs.Evaluations = idx
	obs.DistinctNontrivial = len(distinct)
	obs.Rule = "component: 1-9 execution requests over 1-3 services (root/child steps, ids from a pool incl. '#' and '[', 3 sub-queries, optional extra variable) through the real executeRequests and DepthExecutor.Execute with a position-echoing queryer; gateway: worlds with lists up to 120 entries containing repeated entities, call counts per service against the plan's levels, duplicate id-only lookups inside one call, and the stitched answer against the single server"
	hx.WriteCases(out, "From Pebbles Require Import Exec.Dedup Corr.C12.\nFrom Coq Require Import List String. Import ListNotations.\nOpen Scope string_scope.\n", "c12case", coq, "mismatches")
	obs.Write(out)
}

func bucket(n int) string {
	switch {
	case n <= 1:
		return "000-001"
	case n <= 10:
		return "002-010"
	case n <= 50:
		return "011-050"
	}
	return "051+"
}
