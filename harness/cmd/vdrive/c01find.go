package main

import (
	"fmt"
	"math/rand"
	"strings"

	"github.com/buildbuildio/pebbles/common"
	"github.com/buildbuildio/pebbles/executor"
	"github.com/vektah/gqlparser/v2"
	"github.com/vektah/gqlparser/v2/ast"

	"verif/harness/coqprint"
	"verif/harness/hx"
)

// Cases for executor.FindInsertionPoints / FindSelection (Exec.Points): a recursive schema, generated selections,
// target paths through them, and result trees that conform or are perturbed (nulls, missing keys, entries that carry
// only __typename, scalars where objects are expected).
var findSchema = gqlparser.MustLoadSchema(&ast.Source{Input: `
interface Node { id: ID! }
type T implements Node { id: ID! a: T b: [T] c: [T!]! s: String }
type Query { me: T all: [T!]! node(id: ID!): Node }
`})

type findGen struct {
	rng    *rand.Rand
	nalias int
}

// a selection on T: text plus the tree of response keys that lead to composite fields
type keyTree struct {
	key  string
	kind string // a | b | c
	sub  []*keyTree
}

func (g *findGen) selT(depth int) (string, []*keyTree) {
	var parts []string
	var tree []*keyTree
	if g.rng.Intn(10) != 0 {
		parts = append(parts, "id")
	}
	if g.rng.Intn(4) == 0 {
		parts = append(parts, "__typename")
	}
	if g.rng.Intn(3) == 0 {
		parts = append(parts, "s")
	}
	if depth > 0 {
		fields := []string{"a", "b", "c"}
		g.rng.Shuffle(3, func(i, j int) { fields[i], fields[j] = fields[j], fields[i] })
		for _, f := range fields[:1+g.rng.Intn(3)] {
			key := f
			txt := f
			if g.rng.Intn(4) == 0 {
				g.nalias++
				key = fmt.Sprintf("k%d", g.nalias)
				txt = key + ": " + f
			}
			sub, st := g.selT(depth - 1)
			if g.rng.Intn(5) == 0 {
				sub = "... on T { " + sub + " }"
			}
			parts = append(parts, txt+" { "+sub+" }")
			tree = append(tree, &keyTree{key: key, kind: f, sub: st})
		}
	}
	g.rng.Shuffle(len(parts), func(i, j int) { parts[i], parts[j] = parts[j], parts[i] })
	return strings.Join(parts, " "), tree
}

// a result object for a selection tree; perturbations with probability p
func (g *findGen) obj(tree []*keyTree, p int, idn *int) map[string]interface{} {
	*idn++
	o := map[string]interface{}{"id": fmt.Sprintf("t%d", *idn)}
	if p > 0 && g.rng.Intn(p) == 0 {
		switch g.rng.Intn(3) {
		case 0:
			return map[string]interface{}{"__typename": "T"}
		case 1:
			delete(o, "id")
			o["s"] = "x"
		case 2:
			o["id"] = float64(*idn)
		}
	}
	for _, t := range tree {
		if p > 0 && g.rng.Intn(p) == 0 {
			switch g.rng.Intn(5) {
			case 0:
				o[t.key] = nil
			case 1:
				continue // key missing
			case 2:
				o[t.key] = "scalar"
			case 3:
				// the other shape: a list (possibly empty) where the schema has an object, an object where it has a list
				if t.kind == "a" {
					n := g.rng.Intn(3)
					l := make([]interface{}, n)
					for i := range l {
						l[i] = g.obj(t.sub, p, idn)
					}
					o[t.key] = l
				} else {
					o[t.key] = g.obj(t.sub, p, idn)
				}
			case 4:
				o[t.key] = []interface{}{}
			}
			continue
		}
		switch t.kind {
		case "a":
			o[t.key] = g.obj(t.sub, p, idn)
		default:
			n := 1 + g.rng.Intn(3)
			if g.rng.Intn(6) == 0 {
				n = 0
			}
			l := make([]interface{}, n)
			for i := range l {
				l[i] = g.obj(t.sub, p, idn)
				if p > 0 && g.rng.Intn(4*p) == 0 {
					l[i] = "not an object"
				}
			}
			o[t.key] = l
		}
	}
	return o
}

func fselCoq(ss ast.SelectionSet) string {
	var items []string
	for _, f := range common.SelectionSetToFields(ss, nil) {
		key := f.Alias
		if key == "" {
			key = f.Name
		}
		isList, nonNull := false, false
		if f.Definition != nil && f.Definition.Type != nil {
			isList, nonNull = f.Definition.Type.Elem != nil, f.Definition.Type.NonNull
		}
		items = append(items, fmt.Sprintf("FSel %s %s %s %s", coqprint.CoqStr(key), hx.CoqBool(isList), hx.CoqBool(nonNull), fselCoq(f.SelectionSet)))
	}
	return "[" + strings.Join(items, "; ") + "]"
}

func findCases(rng *rand.Rand, n int, obs *hx.Obs) []string {
	var out []string
	g := &findGen{rng: rng}
	for i := 0; i < n; i++ {
		sel, tree := g.selT(1 + rng.Intn(3))
		if len(tree) == 0 {
			continue
		}
		// a path through the tree
		var path []string
		cur := tree
		for len(cur) > 0 {
			t := cur[rng.Intn(len(cur))]
			path = append(path, t.key)
			cur = t.sub
			if rng.Intn(3) == 0 {
				break
			}
		}
		perturb := []int{0, 0, 6, 3}[rng.Intn(4)]
		idn := 0
		var query string
		var target, branch []string
		var result map[string]interface{}
		switch rng.Intn(3) {
		case 0: // a follow-up step: node wrapper, one starting point
			query = "{ node(id: \"x\") { ... on T { " + sel + " } } }"
			branch = []string{"x#t0"}
			target = append([]string{"x"}, path...)
			result = g.obj(tree, perturb, &idn)
		case 1: // a root step, object root
			query = "{ me { " + sel + " } }"
			target = append([]string{"me"}, path...)
			result = map[string]interface{}{"me": g.obj(tree, perturb, &idn)}
		default: // a root step, list root
			query = "{ all { " + sel + " } }"
			target = append([]string{"all"}, path...)
			l := make([]interface{}, 1+rng.Intn(3))
			for k := range l {
				l[k] = g.obj(tree, perturb, &idn)
			}
			result = map[string]interface{}{"all": l}
		}
		doc, errs := gqlparser.LoadQuery(findSchema, query)
		if errs != nil {
			continue
		}
		ss := doc.Operations[0].SelectionSet
		var start [][]string
		start = append(start, append([]string{}, branch...))
		var got [][]string
		var err error
		func() {
			defer func() {
				if r := recover(); r != nil {
					err = fmt.Errorf("panic: %v", r)
					obs.Fail(len(out), fmt.Sprintf("FindInsertionPoints panicked (%v) on target %v, selection %s", r, target, query), map[string]interface{}{"target": target, "query": query, "result": result, "branch": branch})
				}
			}()
			got, err = executor.FindInsertionPoints(target, ss, result, start)
		}()
		obsCoq := "None"
		if err == nil {
			items := make([]string, len(got))
			for k, p := range got {
				items[k] = hx.CoqStrList(p)
			}
			obsCoq = "(Some [" + strings.Join(items, "; ") + "])"
			obs.Count(fmt.Sprintf("find_points_%02d_places", len(got)))
		} else {
			obs.Count("find_points_error")
		}
		resCoq := coqprint.JSON(result, nil) // (JObj [...])
		resCoq = strings.TrimSuffix(strings.TrimPrefix(resCoq, "(JObj "), ")")
		out = append(out, fmt.Sprintf("CFind %s %s\n     %s %s\n     %s", hx.CoqStrList(target), fselCoq(ss), resCoq, hx.CoqStrList(branch), obsCoq))
	}
	return out
}
