package main

import (
	"fmt"
	"sort"
	"strings"

	"github.com/buildbuildio/pebbles/planner"
	"github.com/buildbuildio/pebbles/requests"
	"github.com/vektah/gqlparser/v2"
	"github.com/vektah/gqlparser/v2/ast"

	"verif/harness/coqprint"
	"verif/harness/fake"
	"verif/harness/gen"
	"verif/harness/hx"
)

func init() { drivers["C06"] = driveC06 }

type c06Case struct {
	WorldSeed int64       `json:"world_seed"`
	OpSeed    int64       `json:"op_seed"`
	Cfg       RigConfig   `json:"config"`
	Op        *gen.GenOp  `json:"operation,omitempty"`
	Fault     *fake.Fault `json:"fault,omitempty"`
	FaultURL  string      `json:"fault_url,omitempty"`
	Repeat    int         `json:"repeat"`
	// a second named operation in the same document; the request alternates operationName
	Second *gen.GenOp `json:"second_operation,omitempty"`
}

func keywordOf(q string) string {
	q = strings.TrimSpace(q)
	switch {
	case strings.HasPrefix(q, "mutation"):
		return "OMutation"
	case strings.HasPrefix(q, "subscription"):
		return "OSubscription"
	}
	return "OQuery"
}

func selectedOp(schema *ast.Schema, op gen.GenOp) *ast.OperationDefinition {
	doc, errs := gqlparser.LoadQuery(schema, op.Query)
	if errs != nil {
		return nil
	}
	if op.OperationName != "" {
		return doc.Operations.ForName(op.OperationName)
	}
	if len(doc.Operations) == 1 {
		return doc.Operations[0]
	}
	return nil
}

// mutation root fields of one client request, by field name -> how many times selected
func rootFieldCounts(o *ast.OperationDefinition) map[string]int {
	out := map[string]int{}
	for _, s := range o.SelectionSet {
		if f, ok := s.(*ast.Field); ok {
			out[f.Name]++
		}
	}
	return out
}

func checkMutationLog(r *Rig, o *ast.OperationDefinition, logs []fake.LoggedRequest) string {
	want := rootFieldCounts(o)
	got := map[string]map[string]int{} // field -> url -> count
	for _, l := range logs {
		if l.Operation == "mutation" {
			for _, f := range l.RootFields {
				if got[f] == nil {
					got[f] = map[string]int{}
				}
				got[f][l.URL]++
				if _, ok := want[f]; !ok {
					return fmt.Sprintf("service %s received mutation root field %q that the client did not select", l.URL, f)
				}
			}
		} else if l.Operation != "query" {
			return fmt.Sprintf("service %s received a %s sub-request for a mutation", l.URL, l.Operation)
		}
	}
	for f, n := range want {
		owner, ok := r.TM.Get("Mutation", f)
		if !ok {
			continue
		}
		total := 0
		for u, c := range got[f] {
			total += c
			if u != owner {
				return fmt.Sprintf("mutation root field %q was sent to %s, its owner is %s", f, u, owner)
			}
		}
		if total != n {
			return fmt.Sprintf("mutation root field %q selected %d time(s) reached its owner %s %d time(s)", f, n, owner, total)
		}
	}
	return ""
}

func planCoq(r *Rig, op gen.GenOp, o *ast.OperationDefinition) (string, bool) {
	var sp planner.SequentialPlanner
	plan, err := sp.Plan(&planner.PlanningContext{Operation: o, Request: &requests.Request{Query: op.Query, Variables: op.Variables}, Schema: r.Merged, TypeURLMap: r.TM})
	if err != nil {
		return "", false
	}
	var fields []string
	for _, s := range o.SelectionSet {
		if f, ok := s.(*ast.Field); ok {
			owner, _ := r.TM.Get("Mutation", f.Name)
			key := f.Alias
			if key == "" {
				key = f.Name
			}
			fields = append(fields, fmt.Sprintf("(%s, %s)", coqprint.CoqStr(key), coqprint.CoqStr(owner)))
		}
	}
	var urls []string
	for _, u := range r.TM.GetURLs() {
		urls = append(urls, coqprint.CoqStr(u))
	}
	sort.Strings(urls)
	var roots, steps []string
	var walk func(s *planner.QueryPlanStep)
	walk = func(s *planner.QueryPlanStep) {
		ip := make([]string, len(s.InsertionPoint))
		for i, p := range s.InsertionPoint {
			ip[i] = coqprint.CoqStr(p)
		}
		steps = append(steps, fmt.Sprintf("([%s], %s)", strings.Join(ip, "; "), keywordOf(s.QueryString)))
		for _, t := range s.Then {
			walk(t)
		}
	}
	for _, s := range plan.RootSteps {
		var keys []string
		for _, sel := range s.SelectionSet {
			if f, ok := sel.(*ast.Field); ok {
				k := f.Alias
				if k == "" {
					k = f.Name
				}
				keys = append(keys, coqprint.CoqStr(k))
			}
		}
		roots = append(roots, fmt.Sprintf("(%s, [%s])", coqprint.CoqStr(s.URL), strings.Join(keys, "; ")))
		walk(s)
	}
	return fmt.Sprintf("mkCase OMutation [%s] [%s] [%s] [%s]", strings.Join(urls, "; "), strings.Join(fields, "; "), strings.Join(roots, "; "), strings.Join(steps, "; ")), true
}

func driveC06(seed int64, tier, out, replay string) {
	rng := hx.NewRand(seed)
	obs := hx.NewObs("C06", seed, tier)
	nWorlds, per := 16, 10
	if tier == "thorough" {
		nWorlds, per = 150, 25
	}
	cfgs := []RigConfig{{}, {Cached: true}, {RealHTTP: true, MaxBatch: 1}, {RealHTTP: true, MaxBatch: 2}, {Cached: true, RealHTTP: true, MaxBatch: 3000}, {Hint: true}}
	var cases []c06Case
	if replay != "" {
		cases = loadReplayCases[c06Case](replay)
	} else {
		for i := 0; i < nWorlds; i++ {
			ws := rng.Int63()
			for j := 0; j < per; j++ {
				cases = append(cases, c06Case{WorldSeed: ws, OpSeed: rng.Int63(), Cfg: cfgs[(i+j)%len(cfgs)], Repeat: 1 + rng.Intn(3)})
			}
		}
	}
	var coq []string
	distinct := map[string]bool{}
	rigs := map[string]*Rig{}
	idx := 0
	for _, c := range cases {
		key := fmt.Sprint(c.WorldSeed, c.Cfg)
		r, ok := rigs[key]
		if !ok {
			opt := gen.DefaultWorldOptions()
			w := gen.NewWorld(hx.NewRand(c.WorldSeed), opt)
			var err error
			r, err = NewRig(w, c.Cfg)
			if err != nil {
				r = nil
			}
			rigs[key] = r
		}
		if r == nil || r.Merged.Mutation == nil {
			continue
		}
		oo := opOptionsFor("inD01", r.World)
		oo.ForceMutation = true
		oo.VarNamedID = true
		var op gen.GenOp
		if c.Op != nil {
			op = *c.Op
		} else {
			orng := hx.NewRand(c.OpSeed)
			if orng.Intn(2) == 0 {
				// two named mutations in one document, selected by operationName
				o2 := oo
				o2.Variables, o2.NamedFrags = false, false
				first := gen.Operation(orng, r.Merged, o2)
				second := gen.Operation(orng, r.Merged, o2)
				q1 := strings.Replace(stripOpName(first.Query), "mutation", "mutation FirstM", 1)
				q2 := strings.Replace(stripOpName(second.Query), "mutation", "mutation SecondM", 1)
				doc := q1 + " " + q2
				op = gen.GenOp{Query: doc, OperationName: "FirstM", Kind: "mutation"}
				s2 := gen.GenOp{Query: doc, OperationName: "SecondM", Kind: "mutation"}
				c.Second = &s2
				if c.Repeat < 2 {
					c.Repeat = 2
				}
			} else {
				op = gen.Operation(orng, r.Merged, oo)
			}
			c.Op = &op
		}
		o := selectedOp(r.Merged, op)
		if o == nil || o.Operation != ast.Mutation {
			continue
		}
		hx.Current(out, idx, c)
		if line, ok := planCoq(r, op, o); ok {
			coq = append(coq, line)
		} else {
			coq = append(coq, "mkCase OMutation [] [] [] []")
		}
		// fault-free first, to learn the calls; then with a fault in a sibling / child step
		what := ""
		sequence := []gen.GenOp{op}
		for k := 1; k < c.Repeat; k++ {
			if c.Second != nil && k%2 == 1 {
				sequence = append(sequence, *c.Second)
			} else {
				sequence = append(sequence, op)
			}
		}
		for _, s := range r.Services {
			s.Faults = nil
		}
		var baseLogs []fake.LoggedRequest
		for k, cur := range sequence {
			co := selectedOp(r.Merged, cur)
			r.ResetLogs()
			resp, ho := r.Do(cur)
			if ho.Panic != "" || ho.TimedOut || resp == nil {
				what = "no well-formed answer to a mutation: " + ho.Panic
				break
			}
			logs := r.Logs()
			if k == 0 {
				baseLogs = logs
			}
			if w := checkMutationLog(r, co, logs); w != "" {
				what = fmt.Sprintf("request %d of %d (%s): %s", k+1, len(sequence), cur.OperationName, w)
				break
			}
		}
		if what == "" && len(baseLogs) > 0 && !c.Cfg.RealHTTP {
			// a failure elsewhere in the plan must not duplicate or lose the mutation
			var sites []fake.LoggedRequest
			for _, l := range baseLogs {
				if l.Operation == "query" {
					sites = append(sites, l)
				}
			}
			if c.Fault == nil && len(sites) > 0 {
				s := sites[rng.Intn(len(sites))]
				c.FaultURL = s.URL
				c.Fault = &fake.Fault{Kind: []string{"errors", "transport", "short"}[rng.Intn(3)], Call: s.Call, Pos: 0}
			}
			if c.Fault != nil {
				r.Services[c.FaultURL].Faults = []fake.Fault{*c.Fault}
				r.ResetLogs()
				r.Do(op)
				if w := checkMutationLog(r, o, r.Logs()); w != "" {
					what = fmt.Sprintf("with a %s fault in a follow-up step at %s: %s", c.Fault.Kind, c.FaultURL, w)
				}
				r.Services[c.FaultURL].Faults = nil
				obs.Count("with_followup_fault")
			}
		}
		if what != "" {
			obs.Fail(idx, what, c)
		}
		obs.CaseInputs = append(obs.CaseInputs, c)
		obs.Count("config_" + c.Cfg.String())
		obs.Count(fmt.Sprintf("root_fields_%d", len(o.SelectionSet)))
		if c.Second != nil {
			obs.Count("two_operations_document")
		}
		if len(baseLogs) >= 2 {
			distinct[fmt.Sprint(c.WorldSeed, op.Query, c.Cfg)] = true
		}
		if idx%37 == 5 && len(obs.Samples) < 4 {
			obs.Samples = append(obs.Samples, map[string]interface{}{"case": c, "subrequests": fake.SortedLog(baseLogs)})
		}
		idx++
	}
	// the answer to a mutation is lost on the wire (real sockets, pooled connections): still exactly once
	if replay == "" {
		for _, how := range []string{"drop", "status", "cut", "drop"} {
			what := runLostAnswer(how)
			if strings.HasPrefix(what, "skip:") {
				obs.Count("lost_answer_skipped")
				obs.Notes = append(obs.Notes, what)
				continue
			}
			obs.Count("lost_answer_" + how)
			if what != "" {
				obs.Fail(idx, what, map[string]interface{}{"scenario": "lost_answer", "how": how})
			}
		}
	}
	obs.Evaluations = idx
	obs.DistinctNontrivial = len(distinct)
	obs.Rule = "generated mutation operations (1-3 root fields, aliases, nested selections owned by other services) over generated worlds, 6 configurations (plain/cached planner, id-to-type hint, real MultiOpQueryer with max batch 1/2/3000), each sent 1-3 times (two-operation documents alternate operationName), then once more with a fault injected into a follow-up step; the request logs of the evaluating fakes are checked per client request; non-trivial = at least 2 sub-requests; plus four runs over real sockets in which the service executes a mutation arriving on a pooled connection and the answer is lost (connection dropped, 502, answer cut off)"
	hx.WriteCases(out, "From Pebbles Require Import Plan.Root Corr.C06.\nFrom Coq Require Import List String. Import ListNotations.\nOpen Scope string_scope.\n", "c6case", coq, "mismatches")
	obs.Write(out)
}

func stripOpName(q string) string {
	// "mutation Op12 {" / "mutation Op12(" -> "mutation {" / "mutation("
	q = strings.TrimSpace(q)
	if !strings.HasPrefix(q, "mutation") {
		return q
	}
	rest := strings.TrimPrefix(q, "mutation")
	i := strings.IndexAny(rest, "{(")
	if i < 0 {
		return q
	}
	return "mutation " + rest[i:]
}
