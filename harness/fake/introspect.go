package fake

import (
	"fmt"
	"sort"

	"github.com/vektah/gqlparser/v2/ast"
	"github.com/vektah/gqlparser/v2/parser"
)

// A small executor for the introspection part of the October-2021 GraphQL specification (section 4): it answers
// whatever introspection query it is sent, over a schema, the way the specification prescribes: kind-specific
// members are null where they do not apply, defaultValue is a GraphQL literal in a string, deprecated members are
// hidden unless includeDeprecated is true, ofType goes as deep as the query asks. It is the "spec-compliant
// responder" of C15 and the reference answer of C16. It shares no code with pebbles.

type inode interface {
	get(f *ast.Field, vars map[string]interface{}) (interface{}, error)
}

// ExecIntrospection answers the operation of `query` selected by opName (or the only one).
func ExecIntrospection(s *ast.Schema, query, opName string, vars map[string]interface{}) (map[string]interface{}, error) {
	doc, err := parser.ParseQuery(&ast.Source{Input: query})
	if err != nil {
		return nil, err
	}
	var op *ast.OperationDefinition
	for _, o := range doc.Operations {
		if opName == "" || o.Name == opName {
			op = o
			break
		}
	}
	if op == nil {
		return nil, fmt.Errorf("operation %q not found", opName)
	}
	ex := &iexec{s: s, doc: doc, vars: vars}
	return ex.selSet(rootNode{ex}, op.SelectionSet)
}

type iexec struct {
	s    *ast.Schema
	doc  *ast.QueryDocument
	vars map[string]interface{}
}

func (ex *iexec) collect(ss ast.SelectionSet, out *[]*ast.Field) error {
	for _, sel := range ss {
		switch v := sel.(type) {
		case *ast.Field:
			*out = append(*out, v)
		case *ast.InlineFragment:
			if err := ex.collect(v.SelectionSet, out); err != nil {
				return err
			}
		case *ast.FragmentSpread:
			fd := ex.doc.Fragments.ForName(v.Name)
			if fd == nil {
				return fmt.Errorf("unknown fragment %s", v.Name)
			}
			if err := ex.collect(fd.SelectionSet, out); err != nil {
				return err
			}
		}
	}
	return nil
}

func (ex *iexec) selSet(n inode, ss ast.SelectionSet) (map[string]interface{}, error) {
	var fields []*ast.Field
	if err := ex.collect(ss, &fields); err != nil {
		return nil, err
	}
	out := map[string]interface{}{}
	for _, f := range fields {
		key := f.Alias
		if key == "" {
			key = f.Name
		}
		v, err := n.get(f, ex.vars)
		if err != nil {
			return nil, err
		}
		c, err := ex.complete(v, f)
		if err != nil {
			return nil, err
		}
		if prev, ok := out[key]; ok { // same key selected twice: the selection sets merge
			out[key] = mergeSelected(prev, c)
			continue
		}
		out[key] = c
	}
	return out, nil
}

// mergeSelected merges what two selections of one response key produced (objects member-wise, lists entry-wise).
func mergeSelected(prev, cur interface{}) interface{} {
	switch p := prev.(type) {
	case map[string]interface{}:
		if c, ok := cur.(map[string]interface{}); ok {
			for k, x := range c {
				if old, ok := p[k]; ok {
					p[k] = mergeSelected(old, x)
				} else {
					p[k] = x
				}
			}
			return p
		}
	case []interface{}:
		if c, ok := cur.([]interface{}); ok && len(c) == len(p) {
			for i := range p {
				p[i] = mergeSelected(p[i], c[i])
			}
			return p
		}
	}
	return cur
}

func (ex *iexec) complete(v interface{}, f *ast.Field) (interface{}, error) {
	switch x := v.(type) {
	case nil:
		return nil, nil
	case inode:
		return ex.selSet(x, f.SelectionSet)
	case []inode:
		out := make([]interface{}, 0, len(x))
		for _, e := range x {
			m, err := ex.selSet(e, f.SelectionSet)
			if err != nil {
				return nil, err
			}
			out = append(out, m)
		}
		return out, nil
	}
	return v, nil
}

func boolArg(f *ast.Field, name string, vars map[string]interface{}) bool {
	a := f.Arguments.ForName(name)
	if a == nil {
		return false
	}
	v, err := a.Value.Value(vars)
	if err != nil {
		return false
	}
	b, _ := v.(bool)
	return b
}

func strOrNil(s string) interface{} {
	if s == "" {
		return nil
	}
	return s
}

type rootNode struct{ ex *iexec }

func (r rootNode) get(f *ast.Field, vars map[string]interface{}) (interface{}, error) {
	switch f.Name {
	case "__schema":
		return schemaNode{r.ex.s}, nil
	case "__type":
		a := f.Arguments.ForName("name")
		if a == nil {
			return nil, fmt.Errorf("__type needs a name")
		}
		v, _ := a.Value.Value(vars)
		name, _ := v.(string)
		if d := r.ex.s.Types[name]; d != nil {
			return typeNode{r.ex.s, ast.NamedType(name, nil)}, nil
		}
		return nil, nil
	case "__typename":
		return r.ex.s.Query.Name, nil
	}
	return nil, fmt.Errorf("not an introspection field: %s", f.Name)
}

type schemaNode struct{ s *ast.Schema }

func (n schemaNode) get(f *ast.Field, vars map[string]interface{}) (interface{}, error) {
	root := func(d *ast.Definition) interface{} {
		if d == nil {
			return nil
		}
		return typeNode{n.s, ast.NamedType(d.Name, nil)}
	}
	switch f.Name {
	case "__typename":
		return "__Schema", nil
	case "description":
		return strOrNil(n.s.Description), nil
	case "queryType":
		return root(n.s.Query), nil
	case "mutationType":
		return root(n.s.Mutation), nil
	case "subscriptionType":
		return root(n.s.Subscription), nil
	case "types":
		var names []string
		for name := range n.s.Types {
			names = append(names, name)
		}
		sort.Strings(names)
		out := []inode{}
		for _, name := range names {
			out = append(out, typeNode{n.s, ast.NamedType(name, nil)})
		}
		return out, nil
	case "directives":
		var names []string
		for name := range n.s.Directives {
			names = append(names, name)
		}
		sort.Strings(names)
		out := []inode{}
		for _, name := range names {
			out = append(out, directiveNode{n.s, n.s.Directives[name]})
		}
		return out, nil
	}
	return nil, fmt.Errorf("__Schema has no field %s", f.Name)
}

type typeNode struct {
	s *ast.Schema
	t *ast.Type
}

func deprecationOf(dl ast.DirectiveList) (bool, interface{}) {
	if d := dl.ForName("deprecated"); d != nil {
		reason := "No longer supported"
		if a := d.Arguments.ForName("reason"); a != nil {
			if a.Value.Kind == ast.NullValue {
				return true, nil
			}
			reason = a.Value.Raw
		}
		return true, reason
	}
	return false, nil
}

func (n typeNode) get(f *ast.Field, vars map[string]interface{}) (interface{}, error) {
	t := n.t
	wrapper := t.NonNull || t.Elem != nil
	var def *ast.Definition
	if !wrapper {
		def = n.s.Types[t.NamedType]
		if def == nil {
			return nil, fmt.Errorf("unknown type %s", t.NamedType)
		}
	}
	switch f.Name {
	case "__typename":
		return "__Type", nil
	case "kind":
		switch {
		case t.NonNull:
			return "NON_NULL", nil
		case t.Elem != nil:
			return "LIST", nil
		}
		return string(def.Kind), nil
	case "name":
		if wrapper {
			return nil, nil
		}
		return def.Name, nil
	case "description":
		if wrapper {
			return nil, nil
		}
		return strOrNil(def.Description), nil
	case "specifiedByURL":
		if !wrapper {
			if d := def.Directives.ForName("specifiedBy"); d != nil {
				if u := d.Arguments.ForName("url"); u != nil {
					return u.Value.Raw, nil
				}
			}
		}
		return nil, nil
	case "ofType":
		switch {
		case t.NonNull:
			inner := *t
			inner.NonNull = false
			return typeNode{n.s, &inner}, nil
		case t.Elem != nil:
			return typeNode{n.s, t.Elem}, nil
		}
		return nil, nil
	case "fields":
		if wrapper || (def.Kind != ast.Object && def.Kind != ast.Interface) {
			return nil, nil
		}
		all := boolArg(f, "includeDeprecated", vars)
		out := []inode{}
		for _, fd := range def.Fields {
			if len(fd.Name) >= 2 && fd.Name[:2] == "__" {
				continue
			}
			if dep, _ := deprecationOf(fd.Directives); dep && !all {
				continue
			}
			out = append(out, fieldNode{n.s, fd})
		}
		return out, nil
	case "interfaces":
		if wrapper || (def.Kind != ast.Object && def.Kind != ast.Interface) {
			return nil, nil
		}
		out := []inode{}
		for _, i := range def.Interfaces {
			out = append(out, typeNode{n.s, ast.NamedType(i, nil)})
		}
		return out, nil
	case "possibleTypes":
		if wrapper || (def.Kind != ast.Union && def.Kind != ast.Interface) {
			return nil, nil
		}
		out := []inode{}
		if def.Kind == ast.Union {
			for _, m := range def.Types {
				out = append(out, typeNode{n.s, ast.NamedType(m, nil)})
			}
			return out, nil
		}
		for _, p := range n.s.GetPossibleTypes(def) {
			if p.Kind == ast.Object {
				out = append(out, typeNode{n.s, ast.NamedType(p.Name, nil)})
			}
		}
		return out, nil
	case "enumValues":
		if wrapper || def.Kind != ast.Enum {
			return nil, nil
		}
		all := boolArg(f, "includeDeprecated", vars)
		out := []inode{}
		for _, e := range def.EnumValues {
			if dep, _ := deprecationOf(e.Directives); dep && !all {
				continue
			}
			out = append(out, enumNode{e})
		}
		return out, nil
	case "inputFields":
		if wrapper || def.Kind != ast.InputObject {
			return nil, nil
		}
		out := []inode{}
		for _, fd := range def.Fields {
			out = append(out, inputNode{n.s, fd.Name, fd.Description, fd.Type, fd.DefaultValue})
		}
		return out, nil
	}
	return nil, fmt.Errorf("__Type has no field %s", f.Name)
}

type fieldNode struct {
	s *ast.Schema
	f *ast.FieldDefinition
}

func argNodes(s *ast.Schema, al ast.ArgumentDefinitionList) []inode {
	out := []inode{}
	for _, a := range al {
		out = append(out, inputNode{s, a.Name, a.Description, a.Type, a.DefaultValue})
	}
	return out
}

func (n fieldNode) get(f *ast.Field, vars map[string]interface{}) (interface{}, error) {
	switch f.Name {
	case "__typename":
		return "__Field", nil
	case "name":
		return n.f.Name, nil
	case "description":
		return strOrNil(n.f.Description), nil
	case "args":
		return argNodes(n.s, n.f.Arguments), nil
	case "type":
		return typeNode{n.s, n.f.Type}, nil
	case "isDeprecated":
		d, _ := deprecationOf(n.f.Directives)
		return d, nil
	case "deprecationReason":
		_, r := deprecationOf(n.f.Directives)
		return r, nil
	}
	return nil, fmt.Errorf("__Field has no field %s", f.Name)
}

type inputNode struct {
	s    *ast.Schema
	name string
	desc string
	t    *ast.Type
	def  *ast.Value
}

func (n inputNode) get(f *ast.Field, vars map[string]interface{}) (interface{}, error) {
	switch f.Name {
	case "__typename":
		return "__InputValue", nil
	case "name":
		return n.name, nil
	case "description":
		return strOrNil(n.desc), nil
	case "type":
		return typeNode{n.s, n.t}, nil
	case "defaultValue":
		if n.def == nil {
			return nil, nil
		}
		return n.def.String(), nil
	}
	return nil, fmt.Errorf("__InputValue has no field %s", f.Name)
}

type enumNode struct{ e *ast.EnumValueDefinition }

func (n enumNode) get(f *ast.Field, vars map[string]interface{}) (interface{}, error) {
	switch f.Name {
	case "__typename":
		return "__EnumValue", nil
	case "name":
		return n.e.Name, nil
	case "description":
		return strOrNil(n.e.Description), nil
	case "isDeprecated":
		d, _ := deprecationOf(n.e.Directives)
		return d, nil
	case "deprecationReason":
		_, r := deprecationOf(n.e.Directives)
		return r, nil
	}
	return nil, fmt.Errorf("__EnumValue has no field %s", f.Name)
}

type directiveNode struct {
	s *ast.Schema
	d *ast.DirectiveDefinition
}

func (n directiveNode) get(f *ast.Field, vars map[string]interface{}) (interface{}, error) {
	switch f.Name {
	case "__typename":
		return "__Directive", nil
	case "name":
		return n.d.Name, nil
	case "description":
		return strOrNil(n.d.Description), nil
	case "locations":
		out := []interface{}{}
		for _, l := range n.d.Locations {
			out = append(out, string(l))
		}
		return out, nil
	case "args":
		return argNodes(n.s, n.d.Arguments), nil
	case "isRepeatable":
		return n.d.IsRepeatable, nil
	}
	return nil, fmt.Errorf("__Directive has no field %s", f.Name)
}
