// Package fake: in-process GraphQL services that really evaluate what they are sent, over a shared
// entity store ("the union of the same data"), and the single-server reference evaluator.
package fake

import (
	"fmt"
	"sort"
)

type ValKind int

const (
	VNull ValKind = iota
	VStr
	VInt
	VBool
	VEnum
	VRef  // reference to an entity by id
	VList // list of values
	VObj  // embedded value object
)

type Val struct {
	Kind ValKind
	S    string
	I    int
	B    bool
	List []Val
	Obj  *Obj
}

// Obj is an entity (Node type, has "id") or an embedded value object.
type Obj struct {
	Type   string
	Fields map[string]Val
}

type Store struct {
	Entities map[string]*Obj          // id -> entity
	Roots    map[string]map[string]Val // "Query"/"Mutation"/"Subscription" -> field -> value
}

func NewStore() *Store {
	return &Store{Entities: map[string]*Obj{}, Roots: map[string]map[string]Val{"Query": {}, "Mutation": {}, "Subscription": {}}}
}

func (s *Store) IDs() []string {
	var ids []string
	for id := range s.Entities {
		ids = append(ids, id)
	}
	sort.Strings(ids)
	return ids
}

func (s *Store) IDsOfType(t string) []string {
	var ids []string
	for id, e := range s.Entities {
		if e.Type == t {
			ids = append(ids, id)
		}
	}
	sort.Strings(ids)
	return ids
}

func Str(s string) Val  { return Val{Kind: VStr, S: s} }
func Int(i int) Val     { return Val{Kind: VInt, I: i} }
func Ref(id string) Val { return Val{Kind: VRef, S: id} }
func Null() Val         { return Val{Kind: VNull} }
func List(vs ...Val) Val {
	return Val{Kind: VList, List: vs}
}

func (v Val) String() string {
	switch v.Kind {
	case VNull:
		return "null"
	case VStr:
		return fmt.Sprintf("%q", v.S)
	case VInt:
		return fmt.Sprint(v.I)
	case VBool:
		return fmt.Sprint(v.B)
	case VEnum:
		return v.S
	case VRef:
		return "->" + v.S
	case VList:
		return fmt.Sprint(v.List)
	case VObj:
		return fmt.Sprintf("{%s %v}", v.Obj.Type, v.Obj.Fields)
	}
	return "?"
}
