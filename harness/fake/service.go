package fake

import (
	"encoding/json"
	"errors"
	"fmt"
	"sort"
	"strings"
	"sync"
	"time"

	"github.com/buildbuildio/pebbles/gqlerrors"
	"github.com/buildbuildio/pebbles/requests"
	"github.com/vektah/gqlparser/v2"
	"github.com/vektah/gqlparser/v2/ast"
)

// LoggedRequest is one sub-request as a service received it.
type LoggedRequest struct {
	URL        string                 `json:"url"`
	Call       int                    `json:"call"` // index of the Query() call (one call = one downstream batch)
	Query      string                 `json:"query"`
	Variables  map[string]interface{} `json:"variables,omitempty"`
	OpName     string                 `json:"operationName,omitempty"`
	Operation  string                 `json:"operation"` // query | mutation | subscription | invalid
	RootFields []string               `json:"root_fields"`
	Invalid    string                 `json:"invalid,omitempty"` // why the service's own schema rejects it
	Answer     map[string]interface{} `json:"-"`                 // what the service answered (data)
}

// Fault tells a service to misbehave on a given call / position.
type Fault struct {
	Kind string `json:"kind"` // transport | errors | errors_with_data | short | long | nulldata | nonode | node_not_map | wrong_shape
	Call int    `json:"call"` // which Query() call of that service (0-based), -1 = every call
	Pos  int    `json:"pos"`  // position inside the batch
	// Where picks, for the deep_* kinds, which of the answer's nested composite values is bent (index into the
	// values of that shape in key order, modulo their number)
	Where int `json:"where,omitempty"`
}

// Service is an evaluating fake downstream implementing queryer.Queryer.
type Service struct {
	Addr   string
	Schema *ast.Schema
	Eval   *Evaluator

	mu     sync.Mutex
	Log    []LoggedRequest
	Calls  int
	Faults []Fault
	// FaultsApplied counts faults that really changed an answer
	FaultsApplied int
	// Delay, when set, makes answering a request whose query contains the key take that long
	Delay map[string]time.Duration
}

func NewService(url string, schema *ast.Schema, store *Store) *Service {
	return &Service{Addr: url, Schema: schema, Eval: &Evaluator{Schema: schema, Store: store}}
}

func (s *Service) URL() string { return s.Addr }

func (s *Service) Reset() {
	s.mu.Lock()
	s.Log = nil
	s.Calls = 0
	s.FaultsApplied = 0
	s.mu.Unlock()
}

func (s *Service) Snapshot() []LoggedRequest {
	s.mu.Lock()
	defer s.mu.Unlock()
	return append([]LoggedRequest(nil), s.Log...)
}

func (s *Service) NumCalls() int {
	s.mu.Lock()
	defer s.mu.Unlock()
	return s.Calls
}

func pickOp(doc *ast.QueryDocument, name *string) *ast.OperationDefinition {
	if name != nil && *name != "" {
		return doc.Operations.ForName(*name)
	}
	if len(doc.Operations) == 1 {
		return doc.Operations[0]
	}
	return nil
}

// Answer evaluates one request the way a spec-following server would: {"data":…} or {"errors":[…]}.
func (s *Service) Answer(req *requests.Request, call int) (map[string]interface{}, gqlerrors.ErrorList, LoggedRequest) {
	lr := LoggedRequest{URL: s.Addr, Call: call, Query: req.Query, Variables: jsonCopy(req.Variables), Operation: "invalid", RootFields: []string{}}
	if req.OperationName != nil {
		lr.OpName = *req.OperationName
	}
	doc, errs := gqlparser.LoadQuery(s.Schema, req.Query)
	if errs != nil {
		lr.Invalid = errs.Error()
		return nil, gqlerrors.ErrorList{{Message: "service " + s.Addr + " rejects sub-request: " + errs.Error()}}, lr
	}
	op := pickOp(doc, req.OperationName)
	if op == nil {
		lr.Invalid = "no operation selected"
		return nil, gqlerrors.ErrorList{{Message: "service " + s.Addr + ": no operation selected"}}, lr
	}
	lr.Operation = string(op.Operation)
	for _, sel := range op.SelectionSet {
		if f, ok := sel.(*ast.Field); ok {
			lr.RootFields = append(lr.RootFields, f.Name)
		}
	}
	data, err := s.Eval.Exec(op, req.Variables)
	if err != nil {
		lr.Invalid = "variables: " + err.Error()
		return nil, gqlerrors.ErrorList{{Message: "service " + s.Addr + " rejects variables: " + err.Error()}}, lr
	}
	return data, nil, lr
}

func jsonCopy(m map[string]interface{}) map[string]interface{} {
	if m == nil {
		return nil
	}
	b, err := json.Marshal(m)
	if err != nil {
		return map[string]interface{}{"_unmarshalable": fmt.Sprint(m)}
	}
	var r map[string]interface{}
	json.Unmarshal(b, &r)
	return r
}

func (s *Service) faultAt(call, pos int) string {
	for _, f := range s.Faults {
		if (f.Call == call || f.Call == -1) && f.Pos == pos {
			return f.Kind
		}
	}
	return ""
}

func (s *Service) whereAt(call, pos int) int {
	for _, f := range s.Faults {
		if (f.Call == call || f.Call == -1) && f.Pos == pos {
			return f.Where
		}
	}
	return 0
}

// bendDeep replaces one nested value of the answer by a value of another shape: deep_obj_to_empty_list,
// deep_obj_to_list, deep_obj_to_scalar bend an object, deep_list_to_obj, deep_list_to_scalar a list. The value
// directly under the top-level key `node` of a lookup is left alone (that is node_not_map).
func bendDeep(data map[string]interface{}, kind string, where int, isLookup bool) bool {
	type site struct {
		parent map[string]interface{}
		list   []interface{}
		key    string
		idx    int
	}
	wantObj := strings.HasPrefix(kind, "deep_obj_")
	var sites []site
	var walk func(v interface{}, top bool)
	visit := func(child interface{}, st site, skip bool) {
		_, isObj := child.(map[string]interface{})
		_, isList := child.([]interface{})
		if !skip && ((wantObj && isObj) || (!wantObj && isList)) {
			sites = append(sites, st)
		}
	}
	walk = func(v interface{}, top bool) {
		switch x := v.(type) {
		case map[string]interface{}:
			keys := make([]string, 0, len(x))
			for k := range x {
				keys = append(keys, k)
			}
			sort.Strings(keys)
			for _, k := range keys {
				visit(x[k], site{parent: x, key: k}, top && isLookup && k == "node")
				walk(x[k], false)
			}
		case []interface{}:
			for i := range x {
				visit(x[i], site{list: x, idx: i}, false)
				walk(x[i], false)
			}
		}
	}
	walk(data, true)
	if len(sites) == 0 {
		return false
	}
	st := sites[where%len(sites)]
	var old, nv interface{}
	if st.parent != nil {
		old = st.parent[st.key]
	} else {
		old = st.list[st.idx]
	}
	switch kind {
	case "deep_obj_to_empty_list":
		nv = []interface{}{}
	case "deep_obj_to_list":
		nv = []interface{}{old}
	case "deep_obj_to_scalar", "deep_list_to_scalar":
		nv = "not-an-object"
	case "deep_list_to_obj":
		nv = map[string]interface{}{"unexpected": "object"}
		if l, _ := old.([]interface{}); len(l) > 0 {
			nv = l[0]
		}
	}
	if st.parent != nil {
		st.parent[st.key] = nv
	} else {
		st.list[st.idx] = nv
	}
	return true
}

func (s *Service) callFault(call int, kinds ...string) bool {
	for _, f := range s.Faults {
		if f.Call == call || f.Call == -1 {
			for _, k := range kinds {
				if f.Kind == k {
					return true
				}
			}
		}
	}
	return false
}

// Query implements queryer.Queryer the way MultiOpQueryer.Query behaves on well-formed answers: the
// errors of the first answer that has any are returned as the error.
func (s *Service) Query(inputs []*requests.Request) ([]map[string]interface{}, error) {
	s.mu.Lock()
	call := s.Calls
	s.Calls++
	s.mu.Unlock()
	if s.callFault(call, "transport") {
		for _, in := range inputs {
			_, _, lr := s.Answer(in, call)
			s.mu.Lock()
			s.Log = append(s.Log, lr)
			s.mu.Unlock()
		}
		s.FaultsApplied++
		return nil, errors.New("transport error talking to " + s.Addr)
	}
	out := make([]map[string]interface{}, 0, len(inputs))
	var firstErr error
	for i, in := range inputs {
		for k, d := range s.Delay {
			if strings.Contains(in.Query, k) {
				time.Sleep(d)
			}
		}
		data, errs, lr := s.Answer(in, call)
		lr.Answer = jsonCopy(data)
		s.mu.Lock()
		s.Log = append(s.Log, lr)
		s.mu.Unlock()
		switch s.faultAt(call, i) {
		case "errors":
			errs = gqlerrors.ErrorList{{Message: "injected failure", Path: []interface{}{"x", 1}, Extensions: map[string]interface{}{"code": "INJECTED", "n": float64(i), "svc": s.Addr}}}
			data = nil
			s.FaultsApplied++
		case "blank_error":
			errs = gqlerrors.ErrorList{{}}
			data = nil
			s.FaultsApplied++
		case "blank_errors_with_data":
			errs = gqlerrors.ErrorList{{Message: ""}, {}}
			s.FaultsApplied++
		case "nulldata":
			// what the real MultiOpQueryer makes of an element without data and errors (fix 8df4d50)
			data = nil
			errs = gqlerrors.ErrorList{{Message: "response from " + s.Addr + " contains neither data nor errors"}}
			s.FaultsApplied++
		case "nonode":
			// only the answer to a Relay lookup: a root field that merely answers under the key `node` is not one
			if _, ok := data["node"]; ok && strings.Contains(in.Query, "node(id:") {
				delete(data, "node")
				s.FaultsApplied++
			}
		case "node_not_map", "node_empty_list", "node_list", "node_number", "node_bool":
			if old, ok := data["node"]; ok && strings.Contains(in.Query, "node(id:") {
				switch s.faultAt(call, i) {
				case "node_empty_list":
					data["node"] = []interface{}{}
				case "node_list":
					data["node"] = []interface{}{old}
				case "node_number":
					data["node"] = 7
				case "node_bool":
					data["node"] = false
				default:
					data["node"] = "oops"
				}
				s.FaultsApplied++
			}
		case "deep_obj_to_empty_list", "deep_obj_to_list", "deep_obj_to_scalar", "deep_list_to_obj", "deep_list_to_scalar":
			if bendDeep(data, s.faultAt(call, i), s.whereAt(call, i), strings.Contains(in.Query, "node(id:")) {
				s.FaultsApplied++
			}
		case "wrong_shape":
			// values whose shape contradicts the schema: objects become strings, lists become objects
			for k, v := range data {
				switch v.(type) {
				case map[string]interface{}:
					data[k] = "not-an-object"
				case []interface{}:
					data[k] = map[string]interface{}{"unexpected": "object"}
				default:
					data[k] = []interface{}{"unexpected", "list"}
				}
				break
			}
		}
		if len(errs) > 0 && firstErr == nil {
			firstErr = errs
		}
		out = append(out, data)
	}
	if firstErr != nil {
		return nil, firstErr
	}
	if s.callFault(call, "short") && len(out) > 0 {
		out = out[:len(out)-1]
		s.FaultsApplied++
	}
	if s.callFault(call, "long") {
		out = append(out, map[string]interface{}{"extra": true})
		s.FaultsApplied++
	}
	return out, nil
}

func (s *Service) Subscribe(*requests.Request, <-chan struct{}, chan *requests.Response) error {
	return errors.New("subscriptions not supported by this fake")
}

// CanonJSON renders any JSON-like value with sorted keys.
func CanonJSON(v interface{}) string {
	b, _ := json.Marshal(v) // encoding/json sorts map keys
	return string(b)
}

// SortedLog renders a request log as a sorted multiset of (url, query, variables).
func SortedLog(l []LoggedRequest) []string {
	var out []string
	for _, r := range l {
		out = append(out, r.URL+" | "+strings.Join(strings.Fields(r.Query), " ")+" | "+CanonJSON(r.Variables))
	}
	sort.Strings(out)
	return out
}
