package fake

import (
	"bytes"
	"encoding/json"
	"errors"
	"io"
	"net/http"

	"github.com/buildbuildio/pebbles/requests"
)

// Bridge puts a Service behind an http.RoundTripper so that the real MultiOpQueryer (JSON batching, decoding,
// error handling) sits between the executor and the evaluating fake.
type Bridge struct {
	Svc *Service
	// ErrorPayloads[k] is injected as the `errors` of batch element k of call ErrCall (and its data dropped).
	ErrCall       int
	ErrorPayloads map[int][]map[string]interface{}
}

func (b *Bridge) RoundTrip(r *http.Request) (*http.Response, error) {
	body, _ := io.ReadAll(r.Body)
	var reqs []*requests.Request
	if err := json.Unmarshal(body, &reqs); err != nil {
		return nil, errors.New("bridge: cannot decode batch: " + err.Error())
	}
	s := b.Svc
	s.mu.Lock()
	call := s.Calls
	s.Calls++
	s.mu.Unlock()
	if s.callFault(call, "transport") {
		s.FaultsApplied++
		return nil, errors.New("transport error talking to " + s.Addr)
	}
	type elem struct {
		Data   map[string]interface{}   `json:"data"`
		Errors []map[string]interface{} `json:"errors,omitempty"`
	}
	out := make([]elem, 0, len(reqs))
	for i, in := range reqs {
		data, errs, lr := s.Answer(in, call)
		lr.Answer = jsonCopy(data)
		s.mu.Lock()
		s.Log = append(s.Log, lr)
		s.mu.Unlock()
		e := elem{Data: data}
		for _, ge := range errs {
			e.Errors = append(e.Errors, map[string]interface{}{"message": ge.Message})
			e.Data = nil
		}
		if call == b.ErrCall {
			if p, ok := b.ErrorPayloads[i]; ok {
				e.Errors = p
				e.Data = nil
				s.FaultsApplied++
			}
		}
		out = append(out, e)
	}
	resp, _ := json.Marshal(out)
	return &http.Response{StatusCode: 200, Body: io.NopCloser(bytes.NewReader(resp)), Header: http.Header{}}, nil
}
