package fake

import (
	"encoding/json"
	"fmt"

	"github.com/vektah/gqlparser/v2/ast"
	"github.com/vektah/gqlparser/v2/validator"
)

// Evaluator executes GraphQL operations over a Store against one schema (a service's own schema,
// or the merged schema for the single-server reference).
type Evaluator struct {
	Schema *ast.Schema
	Store  *Store
}

type collected struct {
	key    string
	fields []*ast.Field
}

func (e *Evaluator) typeMatches(concrete, cond string) bool {
	if cond == "" || cond == concrete {
		return true
	}
	def := e.Schema.Types[cond]
	if def == nil {
		return false
	}
	if def.Kind == ast.Interface || def.Kind == ast.Union {
		for _, pt := range e.Schema.GetPossibleTypes(def) {
			if pt.Name == concrete {
				return true
			}
		}
	}
	return false
}

func skipped(dirs ast.DirectiveList, vars map[string]interface{}) bool {
	if d := dirs.ForName("skip"); d != nil {
		if v, err := d.ArgumentMap(vars)["if"].(bool); err && v {
			return true
		}
	}
	if d := dirs.ForName("include"); d != nil {
		if v, ok := d.ArgumentMap(vars)["if"].(bool); ok && !v {
			return true
		}
	}
	return false
}

func (e *Evaluator) collect(concrete string, sels ast.SelectionSet, vars map[string]interface{}, acc *[]*collected) {
	for _, s := range sels {
		switch s := s.(type) {
		case *ast.Field:
			if skipped(s.Directives, vars) {
				continue
			}
			key := s.Alias
			if key == "" {
				key = s.Name
			}
			found := false
			for _, c := range *acc {
				if c.key == key {
					c.fields = append(c.fields, s)
					found = true
					break
				}
			}
			if !found {
				*acc = append(*acc, &collected{key: key, fields: []*ast.Field{s}})
			}
		case *ast.InlineFragment:
			if skipped(s.Directives, vars) || !e.typeMatches(concrete, s.TypeCondition) {
				continue
			}
			e.collect(concrete, s.SelectionSet, vars, acc)
		case *ast.FragmentSpread:
			if skipped(s.Directives, vars) || s.Definition == nil || !e.typeMatches(concrete, s.Definition.TypeCondition) {
				continue
			}
			e.collect(concrete, s.Definition.SelectionSet, vars, acc)
		}
	}
}

// resolve returns the stored value of field f on obj (nil obj = root of type rootType), adjusted by arguments
// so that argument values are observable.
func (e *Evaluator) resolve(obj *Obj, rootType string, f *ast.Field, vars map[string]interface{}) Val {
	args := f.ArgumentMap(vars)
	var v Val
	var ok bool
	if obj == nil {
		if f.Name == "node" {
			if id, isStr := args["id"].(string); isStr {
				if ent := e.Store.Entities[id]; ent != nil && e.Schema.Types[ent.Type] != nil {
					return Ref(id)
				}
			}
			return Null()
		}
		v, ok = e.Store.Roots[rootType][f.Name]
	} else {
		v, ok = obj.Fields[f.Name]
	}
	if !ok {
		return Null()
	}
	// arguments: "a" shifts ints / tags strings, "n" truncates lists, "v" (mutations) tags strings
	if a, has := args["a"]; has && a != nil {
		switch v.Kind {
		case VInt:
			if ai, isI := toInt(a); isI {
				v = Int(v.I + ai)
			}
		case VStr:
			v = Str(fmt.Sprintf("%s/a=%v", v.S, a))
		}
	}
	if n, has := args["n"]; has && n != nil && v.Kind == VList {
		if ni, isI := toInt(n); isI && ni >= 0 && ni < len(v.List) {
			v = Val{Kind: VList, List: v.List[:ni]}
		}
	}
	if x, has := args["v"]; has && x != nil && v.Kind == VStr {
		v = Str(fmt.Sprintf("%s/v=%v", v.S, x))
	}
	if flt, has := args["filter"]; has && flt != nil && v.Kind == VStr {
		v = Str(fmt.Sprintf("%s/filter=%v", v.S, canonArg(flt)))
	}
	if dat, has := args["data"]; has && dat != nil && v.Kind == VStr {
		v = Str(fmt.Sprintf("%s/data=%v", v.S, canonArg(dat)))
	}
	return v
}

func canonArg(x interface{}) string {
	if m, ok := x.(map[string]interface{}); ok && len(m) <= 2 {
		_, hq := m["q"]
		_, hl := m["limit"]
		if n := len(m); (n == 2 && hq && hl) || (n == 1 && (hq || hl)) || n == 0 {
			return fmt.Sprintf("{q:%v,limit:%v}", m["q"], m["limit"])
		}
	}
	// any other shape (lists, nested objects): its JSON text, keys sorted
	if b, err := json.Marshal(x); err == nil {
		return string(b)
	}
	return fmt.Sprint(x)
}

func toInt(x interface{}) (int, bool) {
	switch n := x.(type) {
	case int:
		return n, true
	case int64:
		return int(n), true
	case float64:
		return int(n), true
	}
	return 0, false
}

func (e *Evaluator) complete(v Val, fields []*ast.Field, vars map[string]interface{}) interface{} {
	switch v.Kind {
	case VNull:
		return nil
	case VStr, VEnum:
		return v.S
	case VInt:
		return v.I
	case VBool:
		return v.B
	case VList:
		out := make([]interface{}, len(v.List))
		for i, x := range v.List {
			out[i] = e.complete(x, fields, vars)
		}
		return out
	case VRef:
		ent := e.Store.Entities[v.S]
		if ent == nil {
			return nil
		}
		return e.execObj(ent, fields, vars)
	case VObj:
		return e.execObj(v.Obj, fields, vars)
	}
	return nil
}

func (e *Evaluator) execObj(obj *Obj, fields []*ast.Field, vars map[string]interface{}) interface{} {
	var sels ast.SelectionSet
	for _, f := range fields {
		sels = append(sels, f.SelectionSet...)
	}
	if len(sels) == 0 {
		// leaf position holding an object: should not validate; render the type name
		return obj.Type
	}
	return e.execSelSet(obj, obj.Type, sels, vars)
}

func (e *Evaluator) execSelSet(obj *Obj, typeName string, sels ast.SelectionSet, vars map[string]interface{}) map[string]interface{} {
	var acc []*collected
	e.collect(typeName, sels, vars, &acc)
	out := make(map[string]interface{}, len(acc))
	for _, c := range acc {
		f := c.fields[0]
		if f.Name == "__typename" {
			out[c.key] = typeName
			continue
		}
		v := e.resolve(obj, typeName, f, vars)
		out[c.key] = e.complete(v, c.fields, vars)
	}
	return out
}

// Exec runs one operation; the document must have been validated against e.Schema.
func (e *Evaluator) Exec(op *ast.OperationDefinition, rawVars map[string]interface{}) (map[string]interface{}, error) {
	vars, err := validator.VariableValues(e.Schema, op, rawVars)
	if err != nil {
		return nil, err
	}
	root := "Query"
	switch op.Operation {
	case ast.Mutation:
		root = "Mutation"
	case ast.Subscription:
		root = "Subscription"
	}
	return e.execSelSet(nil, root, op.SelectionSet, vars), nil
}
