package fake

import (
	"context"
	"encoding/json"
	"net"
	"net/http"
	"net/http/httptest"
	"strings"
	"sync"
	"time"

	"github.com/buildbuildio/pebbles/requests"
	"github.com/gobwas/ws"
	"github.com/gobwas/ws/wsutil"
)

// WSUpstream is a graphql-ws (subscriptions-transport-ws) service: it accepts connections, records the start
// message of each, and then does what the test tells it to (emit data, complete, error, drop the connection).
type WSUpstream struct {
	Srv *httptest.Server

	mu    sync.Mutex
	conns []*UpConn
	newCh chan *UpConn
}

type UpConn struct {
	conn     net.Conn
	Start    *requests.Request // payload of the start message
	StartID  string
	Closed   chan struct{} // closed when the peer (the gateway) closed or dropped the connection
	wmu      sync.Mutex
	closedBy string
}

func NewWSUpstream() *WSUpstream {
	u := &WSUpstream{newCh: make(chan *UpConn, 64)}
	u.Srv = httptest.NewServer(http.HandlerFunc(func(w http.ResponseWriter, r *http.Request) {
		up := ws.HTTPUpgrader{Timeout: 10 * time.Second, Protocol: func(p string) bool { return p == "graphql-ws" }}
		conn, _, _, err := up.Upgrade(r, w)
		if err != nil {
			return
		}
		c := &UpConn{conn: conn, Closed: make(chan struct{})}
		announced := false
		defer func() {
			close(c.Closed)
			conn.Close()
		}()
		for {
			msg, err := wsutil.ReadClientText(conn)
			if err != nil {
				return
			}
			var m requests.ClientSubMsg
			if json.Unmarshal(msg, &m) != nil {
				continue
			}
			switch m.Type {
			case requests.SubConnectionInit:
				c.send(map[string]interface{}{"type": requests.SubConnectionAck})
			case requests.SubStart:
				c.Start, c.StartID = m.Payload, m.ID
				if !announced {
					announced = true
					u.mu.Lock()
					u.conns = append(u.conns, c)
					u.mu.Unlock()
					u.newCh <- c
				}
			}
		}
	}))
	return u
}

func (u *WSUpstream) URL() string { return u.Srv.URL }

// Accept waits for the next subscription to arrive
func (u *WSUpstream) Accept(timeout time.Duration) *UpConn {
	select {
	case c := <-u.newCh:
		return c
	case <-time.After(timeout):
		return nil
	}
}

func (u *WSUpstream) Conns() []*UpConn {
	u.mu.Lock()
	defer u.mu.Unlock()
	return append([]*UpConn{}, u.conns...)
}

func (u *WSUpstream) Close() {
	for _, c := range u.Conns() {
		c.conn.Close()
	}
	u.Srv.CloseClientConnections()
	u.Srv.Close()
}

func (c *UpConn) send(v interface{}) error {
	b, _ := json.Marshal(v)
	c.wmu.Lock()
	defer c.wmu.Unlock()
	return wsutil.WriteServerText(c.conn, b)
}

func (c *UpConn) Data(data map[string]interface{}, errs []interface{}) error {
	p := map[string]interface{}{"data": data}
	if errs != nil {
		p["errors"] = errs
	}
	return c.send(map[string]interface{}{"type": requests.SubData, "id": c.StartID, "payload": p})
}

// ErrorMsg sends the protocol's `error` message for the operation (payload: list of errors)
func (c *UpConn) ErrorMsg(errs []interface{}) error {
	return c.send(map[string]interface{}{"type": requests.SubError, "id": c.StartID, "payload": errs})
}
func (c *UpConn) Complete() error {
	return c.send(map[string]interface{}{"type": requests.SubComplete, "id": c.StartID})
}
func (c *UpConn) KeepAlive() error {
	return c.send(map[string]interface{}{"type": requests.SubConnectionKeepAlive})
}
func (c *UpConn) Raw(b []byte) error {
	c.wmu.Lock()
	defer c.wmu.Unlock()
	return wsutil.WriteServerText(c.conn, b)
}
func (c *UpConn) Drop() { c.conn.Close() }

func (c *UpConn) WaitClosed(timeout time.Duration) bool {
	select {
	case <-c.Closed:
		return true
	case <-time.After(timeout):
		return false
	}
}

// ---- a graphql-ws client of the gateway ----
type WSClient struct {
	conn   net.Conn
	Frames chan WSFrame
	done   chan struct{}
}

type WSFrame struct {
	Raw     string
	Msg     map[string]interface{}
	BadJSON bool
	Close   bool // a close frame or the end of the connection
	Err     string
}

func DialGateway(httpURL string) (*WSClient, error) {
	d := ws.Dialer{Timeout: 5 * time.Second, Protocols: []string{"graphql-ws"}}
	conn, _, _, err := d.Dial(context.Background(), "ws"+strings.TrimPrefix(httpURL, "http"))
	if err != nil {
		return nil, err
	}
	c := &WSClient{conn: conn, Frames: make(chan WSFrame, 4096), done: make(chan struct{})}
	go func() {
		defer close(c.done)
		for {
			msg, op, err := wsutil.ReadServerData(conn)
			if err != nil {
				c.Frames <- WSFrame{Close: true, Err: err.Error()}
				return
			}
			if op == ws.OpClose {
				c.Frames <- WSFrame{Close: true}
				return
			}
			f := WSFrame{Raw: string(msg)}
			dec := json.NewDecoder(strings.NewReader(f.Raw))
			dec.UseNumber()
			if dec.Decode(&f.Msg) != nil || dec.More() {
				f.BadJSON = true
			}
			c.Frames <- f
		}
	}()
	return c, nil
}

func (c *WSClient) Send(v interface{}) error {
	b, _ := json.Marshal(v)
	return wsutil.WriteClientText(c.conn, b)
}
func (c *WSClient) SendRaw(b []byte) error { return wsutil.WriteClientText(c.conn, b) }
func (c *WSClient) Drop()                  { c.conn.Close() }

// Next returns the next frame that is not a keep-alive
func (c *WSClient) Next(timeout time.Duration) (WSFrame, bool) {
	deadline := time.After(timeout)
	for {
		select {
		case f := <-c.Frames:
			if f.Msg != nil && f.Msg["type"] == requests.SubConnectionKeepAlive {
				continue
			}
			return f, true
		case <-deadline:
			return WSFrame{}, false
		}
	}
}

// ---- a listener whose connections stall once in the middle of a websocket message: right after the header of the
// first text frame longer than 40 bytes has been written, the write of the payload is held back for a while ----
type StallListener struct {
	net.Listener
	Hold time.Duration
}

func (l StallListener) Accept() (net.Conn, error) {
	c, err := l.Listener.Accept()
	if err != nil {
		return nil, err
	}
	return &stallConn{Conn: c, hold: l.Hold}, nil
}

type stallConn struct {
	net.Conn
	hold    time.Duration
	mu      sync.Mutex
	stalled bool
}

func (c *stallConn) Write(b []byte) (int, error) {
	n, err := c.Conn.Write(b)
	isHeader := (len(b) == 2 && b[0] == 0x81 && b[1] > 40 && b[1] < 126) || (len(b) == 4 && b[0] == 0x81 && b[1] == 126)
	if err == nil && isHeader {
		c.mu.Lock()
		first := !c.stalled
		c.stalled = true
		c.mu.Unlock()
		if first {
			time.Sleep(c.hold)
		}
	}
	return n, err
}
