// Package hx holds what every property driver shares: the single PRNG, the
// Coq-term printer and the observation file handed to bin/check.
package hx

import (
	"encoding/json"
	"fmt"
	"math/rand"
	"os"
	"path/filepath"
	"sort"
	"strings"
)

// Obs is what a driver reports to bin/check (work/<id>/obs.json).
type Obs struct {
	Property           string                 `json:"property"`
	Seed               int64                  `json:"seed"`
	Tier               string                 `json:"tier"`
	Evaluations        int                    `json:"evaluations"`
	DistinctNontrivial int                    `json:"distinct_nontrivial"`
	Rule               string                 `json:"rule"`
	Samples            []interface{}          `json:"samples"`
	Histogram          map[string]interface{} `json:"histogram"`
	Exhaustive         bool                   `json:"exhaustive"`
	// OracleFailures: the property itself fails on the implementation for this input.
	OracleFailures []Failure `json:"oracle_failures"`
	// KnownHit: listed known findings that were replayed and still fail.
	KnownHit []Failure `json:"known_hit"`
	// KnownGone: listed known findings that no longer fail.
	KnownGone []string `json:"known_gone"`
	// CaseInputs[i] describes case i of cases.v, for replay files.
	CaseInputs []interface{} `json:"case_inputs"`
	Notes      []string      `json:"notes"`
}

type Failure struct {
	Key   string      `json:"key,omitempty"`
	Case  int         `json:"case"`
	What  string      `json:"what"`
	Input interface{} `json:"input"`
}

func NewObs(prop string, seed int64, tier string) *Obs {
	return &Obs{Property: prop, Seed: seed, Tier: tier, Histogram: map[string]interface{}{},
		OracleFailures: []Failure{}, KnownHit: []Failure{}, KnownGone: []string{}, Samples: []interface{}{}, CaseInputs: []interface{}{}, Notes: []string{}}
}

func (o *Obs) Fail(idx int, what string, input interface{}) {
	if len(o.OracleFailures) < 50 {
		o.OracleFailures = append(o.OracleFailures, Failure{Case: idx, What: what, Input: input})
	}
}

func (o *Obs) Count(key string, by ...int) {
	v, _ := o.Histogram[key].(int)
	n := 1
	if len(by) > 0 {
		n = by[0]
	}
	o.Histogram[key] = v + n
}

func (o *Obs) Write(dir string) {
	b, err := json.MarshalIndent(o, "", " ")
	if err != nil {
		panic(err)
	}
	if err := os.WriteFile(filepath.Join(dir, "obs.json"), b, 0o644); err != nil {
		panic(err)
	}
}

func NewRand(seed int64) *rand.Rand { return rand.New(rand.NewSource(seed)) }

// ---- Coq term printing ----

func CoqNat(n int) string { return fmt.Sprintf("%d", n) }

func CoqBool(b bool) string {
	if b {
		return "true"
	}
	return "false"
}

func CoqList(items []string) string { return "[" + strings.Join(items, "; ") + "]" }

func CoqNatList(xs []int) string {
	s := make([]string, len(xs))
	for i, x := range xs {
		s[i] = CoqNat(x)
	}
	return CoqList(s)
}

func CoqOptNat(x *int) string {
	if x == nil {
		return "None"
	}
	return fmt.Sprintf("(Some %d)", *x)
}

// CoqString prints a Coq string literal (only " needs doubling). Non-printable or
// non-ASCII bytes are not expected; they are rendered via a decimal-code escape list by callers that need them.
func CoqString(s string) string {
	return "\"" + strings.ReplaceAll(s, "\"", "\"\"") + "\""
}

func CoqStrList(xs []string) string {
	s := make([]string, len(xs))
	for i, x := range xs {
		s[i] = CoqString(x)
	}
	return CoqList(s)
}

func SortedKeys(m map[string]interface{}) []string {
	ks := make([]string, 0, len(m))
	for k := range m {
		ks = append(ks, k)
	}
	sort.Strings(ks)
	return ks
}

// WriteCases writes work/<id>/cases.v: header, `Definition cases := [...]`, and the fixed footer that
// prints the list of mismatching case indices.
func WriteCases(dir, header, caseType string, cases []string, mismatchFn string) {
	if filepath.Base(dir) != ".shard" {
		// large runs are split into files that bin/check evaluates in parallel (and that Coq's parser can take)
		total := 0
		for _, c := range cases {
			total += len(c)
		}
		if len(cases) > 600 {
			WriteCasesSharded(dir, header, caseType, cases, mismatchFn, 400)
			return
		}
		if total > 400_000 && len(cases) >= 16 {
			shards := (total + 199_999) / 200_000
			if shards > 16 {
				shards = 16
			}
			WriteCasesSharded(dir, header, caseType, cases, mismatchFn, (len(cases)+shards-1)/shards)
			return
		}
	}
	var sb strings.Builder
	sb.WriteString(header)
	sb.WriteString("\nDefinition cases : list (" + caseType + ") := [\n")
	for i, c := range cases {
		sb.WriteString("  " + c)
		if i+1 < len(cases) {
			sb.WriteString(";")
		}
		sb.WriteString("\n")
	}
	sb.WriteString("].\n")
	sb.WriteString("Definition M := Eval vm_compute in " + mismatchFn + " cases.\nPrint M.\n")
	if err := os.WriteFile(filepath.Join(dir, "cases.v"), []byte(sb.String()), 0o644); err != nil {
		panic(err)
	}
}

// WriteCasesSharded writes cases_<first index>.v files of at most perShard cases each (evaluated in parallel by bin/check).
func WriteCasesSharded(dir, header, caseType string, cases []string, mismatchFn string, perShard int) {
	for off := 0; off < len(cases) || off == 0; off += perShard {
		end := off + perShard
		if end > len(cases) {
			end = len(cases)
		}
		sub := dir + "/.shard"
		os.MkdirAll(sub, 0o755)
		WriteCases(sub, header, caseType, cases[off:end], mismatchFn)
		os.Rename(filepath.Join(sub, "cases.v"), filepath.Join(dir, fmt.Sprintf("cases_%06d.v", off)))
		os.Remove(sub)
	}
}

// Permutations of 0..n-1.
func Permutations(n int) [][]int {
	var res [][]int
	a := make([]int, n)
	for i := range a {
		a[i] = i
	}
	var rec func(k int)
	rec = func(k int) {
		if k == n {
			res = append(res, append([]int(nil), a...))
			return
		}
		for i := k; i < n; i++ {
			a[k], a[i] = a[i], a[k]
			rec(k + 1)
			a[k], a[i] = a[i], a[k]
		}
	}
	rec(0)
	return res
}

// Current records which case is about to run, so that a crash of the whole process can be attributed.
func Current(dir string, idx int, input interface{}) {
	b, _ := json.Marshal(map[string]interface{}{"case": idx, "input": input})
	os.WriteFile(filepath.Join(dir, "current_case.json"), b, 0o644)
}
